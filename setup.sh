#!/bin/sh
# offline setup: nothing to build; verify the tools the checks need are present
set -e
cd "$(dirname "$0")"
mkdir -p out evidence
command -v java >/dev/null
test -f /opt/veriftools/tla/tla2tools.jar
/venv/bin/python -c "import perception_eval, numpy, shapely" 2>/dev/null
echo setup-ok
