------------------------------ MODULE PassFail ------------------------------
(***************************************************************************)
(* Pass/fail classification of a frame                                     *)
(* (objects_filter.get_positive_objects / get_negative_objects,            *)
(*  DynamicObjectWithPerceptionResult.get_status / is_result_correct,      *)
(*  PassFailResult.evaluate).                                              *)
(*                                                                         *)
(* A result is <<e, g>> (g = 0: no ground truth).  `Beats(e, g)` says the  *)
(* pair's pass/fail score (plane distance in 3-D tasks) beats the          *)
(* threshold configured for the GROUND TRUTH's label; `HasThr(g)` says a   *)
(* threshold is configured for that label at all.                          *)
(***************************************************************************)
EXTENDS Integers, Sequences, FiniteSets, Labels

\* is_result_correct(mode, threshold) ; threshold absent -> label agreement only
Correct(el, gl, hasThr, beats, policy) ==
  IF ~hasThr THEN Compat(policy, el, gl)
  ELSE IF IsFP(gl) THEN ~beats
  ELSE beats /\ Compat(policy, el, gl)

\* get_status -> <<estimate status, ground-truth status>>
Status(hasGt, el, gl, hasThr, beats, policy) ==
  IF ~hasGt THEN <<"FP", "none">>
  ELSE IF Correct(el, gl, hasThr, beats, policy)
       THEN (IF IsFP(gl) THEN <<"FP", "TN">> ELSE <<"TP", "TP">>)
       ELSE (IF IsFP(gl) THEN <<"FP", "FP">> ELSE <<"FP", "FN">>)
=============================================================================
