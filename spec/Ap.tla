--------------------------------- MODULE Ap ---------------------------------
(***************************************************************************)
(* Average precision (perception_eval/evaluation/metrics/detection/ap.py,  *)
(* map.py) for ONE label bucket.                                           *)
(*                                                                         *)
(* A ranking is the bucket's object results ordered by descending          *)
(* confidence.  Each entry is                                              *)
(*     0..W  a TP whose heading weight is w/W (AP counts it 1, APH w/W)    *)
(*     FPe   a false positive                                              *)
(*     IGe   an "ignored" result: the label used for the threshold lookup  *)
(*           (the ground truth's label, else the estimate's) is not the    *)
(*           bucket's label, so the implementation counts it neither as TP *)
(*           nor as FP -- but it still occupies a rank.                    *)
(* g is the number of ground truths of the label.                          *)
(*                                                                         *)
(* All quantities are integers: precision is scaled by W*L (L = lcm(1..N)),*)
(* recall by W*g, so  AP = ApInt / (W*L*W*g).                              *)
(*                                                                         *)
(* OpAP transcribes the code path (cumulative sums, precision_i =          *)
(* cumTP_i/(i), recall_i = cumTP_i/g, backward envelope with strict >,     *)
(* sum of maxprec * delta recall).  DeclAP is the property's definition:   *)
(* area under p^(rho) = max{precision_j : recall_j >= rho}.                *)
(***************************************************************************)
EXTENDS Integers, Sequences, FiniteSets

CONSTANTS W,     \* heading-weight levels (weights 0/W .. W/W)
          N,     \* maximal ranking length
          L      \* lcm(1..N)

FPe == -1
IGe == -2
Entries == (0..W) \cup {FPe, IGe}

IsTP(x) == x >= 0
Wt(x, weighted) == IF x >= 0 THEN (IF weighted THEN x ELSE W) ELSE 0

RECURSIVE Cum(_, _, _)
Cum(s, i, wt) == IF i = 0 THEN 0 ELSE Cum(s, i - 1, wt) + Wt(s[i], wt)

RECURSIVE CumFP(_, _)
CumFP(s, i) == IF i = 0 THEN 0 ELSE CumFP(s, i - 1) + (IF s[i] = FPe THEN 1 ELSE 0)

NumTP(s) == Cardinality({i \in 1..Len(s) : IsTP(s[i])})

\* precision (x W*L) and recall (x W*g) after the first i entries
P(s, i, wt) == (Cum(s, i, wt) * L) \div i            \* exact because i | L
R(s, i, g, wt) == IF g = 0 THEN 0 ELSE Cum(s, i, wt)

(* ---- operational AP: the implementation's backward envelope ------------ *)
\* walking i = Len-1 .. 1 with running maximum mp reached at recall mr
RECURSIVE OpFrom(_, _, _, _, _, _)
OpFrom(s, i, g, wt, mp, mr) ==
  IF i = 0 THEN mp * mr                               \* closing point (mp, recall 0)
  ELSE IF P(s, i, wt) > mp
       THEN mp * (mr - R(s, i, g, wt)) + OpFrom(s, i - 1, g, wt, P(s, i, wt), R(s, i, g, wt))
       ELSE OpFrom(s, i - 1, g, wt, mp, mr)

Undefined == -1                                        \* float("inf") in the implementation
OpAP(s, g, wt) ==
  IF Len(s) = 0 THEN Undefined
  ELSE OpFrom(s, Len(s) - 1, g, wt, P(s, Len(s), wt), R(s, Len(s), g, wt))

(* ---- declarative AP: area under the interpolated precision-recall curve - *)
SetMax(S) == CHOOSE x \in S : \A y \in S : y <= x
RecVals(s, g, wt) == {R(s, i, g, wt) : i \in 1..Len(s)} \cup {0}
MaxPrecAt(s, g, wt, rho) == SetMax({P(s, j, wt) : j \in {k \in 1..Len(s) : R(s, k, g, wt) >= rho}})
PrevVal(S, x) == SetMax({y \in S : y < x})

RECURSIVE SumOver(_, _, _, _, _)
SumOver(S, s, g, wt, All) ==
  IF S = {} THEN 0
  ELSE LET x == CHOOSE y \in S : TRUE
       IN (x - PrevVal(All, x)) * MaxPrecAt(s, g, wt, x) + SumOver(S \ {x}, s, g, wt, All)

DeclAP(s, g, wt) ==
  IF Len(s) = 0 THEN Undefined
  ELSE SumOver(RecVals(s, g, wt) \ {0}, s, g, wt, RecVals(s, g, wt))

Unit(g) == W * L * W * g                               \* ApInt = Unit  <=>  AP = 1

(* ---- the cumulative lists the implementation exposes ------------------- *)
TpList(s, wt) == [i \in 1..Len(s) |-> Cum(s, i, wt)]  \* x W
FpList(s) == [i \in 1..Len(s) |-> CumFP(s, i)]

(* ---- properties (C04) -------------------------------------------------- *)
OpEqDecl(s, g) == OpAP(s, g, TRUE) = DeclAP(s, g, TRUE) /\ OpAP(s, g, FALSE) = DeclAP(s, g, FALSE)

\* with one-to-one matching a label cannot have more TPs than ground truths
OneToOneOK(s, g) == NumTP(s) <= g

Bounds(s, g) == (Len(s) > 0 /\ g > 0 /\ OneToOneOK(s, g)) =>
   /\ 0 <= OpAP(s, g, TRUE)
   /\ OpAP(s, g, TRUE) <= OpAP(s, g, FALSE)
   /\ OpAP(s, g, FALSE) <= Unit(g)

ZeroWithoutTP(s, g) == (Len(s) > 0 /\ NumTP(s) = 0) => (OpAP(s, g, FALSE) = 0 /\ OpAP(s, g, TRUE) = 0)

LastTP(s) == SetMax({i \in 1..Len(s) : IsTP(s[i])} \cup {0})
\* every ground truth matched by a correct estimate and no wrong estimate outranks a correct one
PerfectIsOne(s, g) == (Len(s) > 0 /\ g > 0 /\ NumTP(s) = g /\ \A j \in 1..LastTP(s) : IsTP(s[j]))
                         => OpAP(s, g, FALSE) = Unit(g)

\* an ignored entry influences the score exactly like a false positive
Replace(s, a, b) == [i \in 1..Len(s) |-> IF s[i] = a THEN b ELSE s[i]]
IgnoredActsAsFP(s, g) == OpAP(s, g, FALSE) = OpAP(Replace(s, IGe, FPe), g, FALSE)

(* ---- C08 lemma: turning one non-TP into a TP never lowers AP ----------- *)
\* (loosening a threshold turns some FP entries of a fixed ranking into TPs)
Promote(s, i, w) == [s EXCEPT ![i] = w]
PromotionMonotone(s, g) ==
  \A i \in 1..Len(s) : s[i] = FPe =>
     \A w \in 0..W :
        /\ DeclAP(Promote(s, i, w), g, FALSE) >= DeclAP(s, g, FALSE)
        /\ DeclAP(Promote(s, i, w), g, TRUE) >= DeclAP(s, g, TRUE)
=============================================================================
