---------------------------- MODULE MC_Dataset2D ----------------------------
(* Engines M and R for the 2-D loader: sampled small datasets (1..2 samples, up to 3 cameras of which some lack data in a sample, up to 3        *)
(* instances sharing regulatory elements, up to 4 annotations in table order) x requested camera lists x tasks x label families.               *)
EXTENDS Dataset2D, TLC, Randomization
CONSTANTS Cams, TimeLists, CatsAw, CatsTl, Boxes, MaxInst, Sample
VARIABLES ds, req, task, family, phase, out

CamSets == (SUBSET Cams) \ {{}}
SampleLists == UNION {{[k \in 1..Len(tl) |-> [time |-> tl[k], cams |-> c[k]]] : c \in [1..Len(tl) -> CamSets]} : tl \in TimeLists}
AnnSpace(n) == [sample : 1..n, cam : Cams, inst : 1..MaxInst, box : Boxes, attr : BOOLEAN]
AnnSeqs(n) == UNION {[1..m -> RandomSubset(4, AnnSpace(n))] : m \in 0..4}

Init == /\ phase = "input" /\ out = <<>>
        /\ family \in {"autoware", "traffic_light"}
        /\ task \in {"detection2d", "tracking2d", "classification2d"}
        /\ req \in CamSets
        /\ \E sl \in RandomSubset(5, SampleLists) :
             \E insts \in RandomSubset(6, [1..MaxInst -> [cat : IF family = "autoware" THEN CatsAw ELSE CatsTl, reg : {100, 200}]]) :
               \E anns \in RandomSubset(Sample, AnnSeqs(Len(sl))) : ds = [samples |-> sl, insts |-> insts, anns |-> anns]
Next == /\ phase = "input" /\ phase' = "done"
        /\ out' = Load2D(ds, req, task, family)
        /\ UNCHANGED <<ds, req, task, family>>

LawFrames2D == OneFramePerSample2D(ds, Load2D(ds, req, task, family)) /\ OneObjectPerAnnotation2D(ds, req, Load2D(ds, req, task, family))
LawCameraMonotone == \A c \in CamSets : CameraMonotone(ds, req, c, task, family)
LawMerged == MergedSound(ds, req, Load2D(ds, req, task, family))
=============================================================================
