--------------------------- MODULE Trace_Matching ---------------------------
(***************************************************************************)
(* Engine T for C01/C02: executions of the real get_object_results(...) /  *)
(* PerceptionEvaluationManager.add_frame_result(...) on large random float *)
(* scenes, recorded as ndjson, validated against Matching.tla.             *)
(*                                                                         *)
(* Per call two events:                                                    *)
(*   Begin  : ne, ng, score (dense ranks of the pair scores), valid,       *)
(*            elab, glab, policy, maximize, fpval                          *)
(*   Result : pairs (list of [e, g], g = 0 for "no ground truth") in the   *)
(*            order of the returned list                                   *)
(* Compatibility is derived by the specification from labels and policy.   *)
(* The order in which the matcher took its picks is not logged; the        *)
(* specification infers it: Result is accepted iff the logged matching is  *)
(* an outcome of the action system of Matching.tla (operator Explains,     *)
(* proved equivalent to reachability by MC_Matching: ExplainsIffOutcome).  *)
(* All invariants of Matching.tla are evaluated on the resulting state.    *)
(* Verdicts are total: a rejected call is reported with the failing clause *)
(* and the rest of the batch is still examined.                            *)
(***************************************************************************)
EXTENDS Matching, Labels, TLC, Json, IOUtils

VARIABLES l, tid, nrej

Trace == ndJsonDeserialize(IOEnv.TRACE_FILE)
Ev == Trace[l]

tvars == <<vars, l, tid, nrej>>

B(x) == x = 1

TraceInit ==
  /\ l = 1 /\ tid = 0 /\ nrej = 0
  /\ nE = 0 /\ nG = 0 /\ score = <<>> /\ valid = <<>> /\ compat = <<>>
  /\ maximize = FALSE /\ fpval = FALSE
  /\ availE = {} /\ availG = {} /\ stage = "idle" /\ res = <<>>

DoBegin(ev) ==
  /\ nE' = ev.ne /\ nG' = ev.ng
  /\ score' = [p \in (1..ev.ne) \X (1..ev.ng) |-> ev.score[p[1]][p[2]]]
  /\ valid' = [p \in (1..ev.ne) \X (1..ev.ng) |-> B(ev.valid[p[1]][p[2]])]
  /\ compat' = [p \in (1..ev.ne) \X (1..ev.ng) |-> Compat(ev.policy, ev.elab[p[1]], ev.glab[p[2]])]
  /\ maximize' = B(ev.maximize) /\ fpval' = B(ev.fpval)
  /\ availE' = 1..ev.ne /\ availG' = 1..ev.ng /\ stage' = "start" /\ res' = <<>>

LoggedRes(ev) == [i \in 1..Len(ev.pairs) |-> <<ev.pairs[i][1], IF ev.pairs[i][2] = 0 THEN None ELSE ev.pairs[i][2]>>]
LoggedMatched(ev) == {<<ev.pairs[i][1], ev.pairs[i][2]>> : i \in {j \in 1..Len(ev.pairs) : ev.pairs[j][2] # 0}}
LoggedLeft(ev) == {ev.pairs[i][1] : i \in {j \in 1..Len(ev.pairs) : ev.pairs[j][2] = 0}}

\* first failing clause of a Result event ("ok" when it is a behaviour of Matching.tla)
Verdict(ev) ==
  LET M == LoggedMatched(ev)
      L == LoggedLeft(ev)
      usedE == {p[1] : p \in M}
  IN
  IF stage # "start" THEN "result-without-begin"
  ELSE IF ~(\A i \in 1..Len(ev.pairs) : ev.pairs[i][1] \in E /\ ev.pairs[i][2] \in (G \cup {0})) THEN "object-not-in-input"
  ELSE IF Cardinality(M) + Cardinality(L) # Len(ev.pairs) THEN "duplicate-result"
  ELSE IF Cardinality(usedE) # Cardinality(M) \/ Cardinality({p[2] : p \in M}) # Cardinality(M) \/ usedE \cap L # {} THEN "not-one-to-one"
  ELSE IF ~(\A p \in M : valid[p]) THEN "invalid-pair-matched"
  ELSE IF nE > 0 /\ nG > 0 /\ ~Explains(M, E, G, 1) THEN "not-a-greedy-two-stage-outcome"
  ELSE IF (nE = 0 \/ nG = 0) /\ M # {} THEN "match-without-objects"
  ELSE IF fpval /\ L # {} THEN "fpval-kept-unmatched-estimate"
  ELSE IF ~fpval /\ L # E \ usedE THEN "estimate-lost-or-leftover-wrong"
  ELSE "ok"

DoResult(ev) ==
  /\ res' = LoggedRes(ev) /\ stage' = "done" /\ availE' = {}
  /\ availG' = G \ {p[2] : p \in LoggedMatched(ev)}
  /\ UNCHANGED inputs

Reject(ev, why) ==
  /\ PrintT(<<"REJECT", ev.tid, l, why>>)
  /\ nrej' = nrej + 1
  /\ stage' = "idle" /\ UNCHANGED <<inputs, availE, availG, res>>

TraceNext ==
  /\ l <= Len(Trace)
  /\ l' = l + 1
  /\ tid' = Ev.tid
  /\ IF Ev.ev = "Begin" THEN DoBegin(Ev) /\ UNCHANGED nrej
     ELSE IF Ev.ev = "Result" THEN
        (IF Verdict(Ev) = "ok" THEN DoResult(Ev) /\ UNCHANGED nrej ELSE Reject(Ev, Verdict(Ev)))
     ELSE Reject(Ev, "unknown-event")

\* invariants of Matching.tla, guarded for the idle pseudo-stage
TOneToOne == stage = "done" => OneToOne
TOnlyValid == stage = "done" => OnlyValidPairs
TComplete == stage = "done" => Complete
TNoBlockingCompat == stage = "done" => NoBlockingCompat
TNoBlockingIncompat == stage = "done" => NoBlockingIncompat
TExact == stage = "done" => ExactWhenNoTies
TFpval == stage = "done" => FpvalDropsOnlyUnmatchable

Consumed == TLCGet("stats").diameter - 1 = Len(Trace)
=============================================================================
