----------------------------- MODULE Trace_Enums -----------------------------
(***************************************************************************)
(* Engine T for C20: every member of every real enum (introspected), case  *)
(* variants and non-members are fed to the real parsers; each call is one  *)
(* event  [enum, members (values as byte sequences), input, kind, idx]     *)
(* where kind in {"member", "str", "none", "error"} says what actually     *)
(* came back and idx which member.  Call-site events compare the string    *)
(* and the enum spelling of one argument.                                  *)
(***************************************************************************)
EXTENDS Enums, TLC, Json, IOUtils
VARIABLES l, nrej
Trace == ndJsonDeserialize(IOEnv.TRACE_FILE)
Ev == Trace[l]

ParseVerdict(ev) ==
  LET want == Parse(ev.enum, ev.members, ev.input) IN
  IF ev.roundtrip_only = 1 /\ Hits(ev.enum, ev.members, ev.input) = {} THEN "ok"       \* set_task documents nothing for non-members
  ELSE IF want = 0 THEN (IF ev.kind = "error" THEN "ok" ELSE "non-member-not-rejected")
  ELSE IF ev.kind = "error" THEN "member-value-rejected"
  ELSE IF ev.kind = "str" THEN "returned-name-string-not-member"
  ELSE IF ev.kind = "none" THEN "returned-none"
  ELSE IF ev.idx # want THEN "wrong-member"
  ELSE "ok"

SiteVerdict(ev) == IF ev.obs_str = ev.obs_enum THEN "ok" ELSE "spelling-matters"

LawsVerdict(ev) ==
  IF ~RoundTrip(ev.enum, ev.members) THEN "roundtrip-law" ELSE "ok"

Verdict(ev) == IF ev.ev = "Parse" THEN ParseVerdict(ev)
               ELSE IF ev.ev = "Site" THEN SiteVerdict(ev)
               ELSE IF ev.ev = "Table" THEN LawsVerdict(ev)
               ELSE "unknown-event"

TraceInit == l = 1 /\ nrej = 0
TraceNext == /\ l <= Len(Trace) /\ l' = l + 1
             /\ IF Verdict(Ev) = "ok" THEN UNCHANGED nrej
                ELSE PrintT(<<"REJECT", Ev.tid, l, Verdict(Ev)>>) /\ nrej' = nrej + 1
Consumed == TLCGet("stats").diameter - 1 = Len(Trace)
=============================================================================
