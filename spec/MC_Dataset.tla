------------------------------ MODULE MC_Dataset ------------------------------
(* Engines M and R for C16: small datasets (1..3 samples, instances appearing / *)
(* disappearing, lattice poses, categories inside and outside the label table,  *)
(* all visibility levels) and what loading them must yield.                     *)
EXTENDS Dataset, TLC, Randomization
CONSTANTS TimeLists, EgoPoses, Cats, AnnPoses, Sizes, PtsSet, VisSet, MaxInst, Sample
VARIABLES ds, merge, phase, out

SampleLists == UNION {{[k \in 1..Len(tl) |-> [time |-> tl[k], ego |-> e[k]]] : e \in [1..Len(tl) -> EgoPoses]} : tl \in TimeLists}
AnnSpace(n) == [sample : 1..n, inst : 1..MaxInst, x : {p[1] : p \in AnnPoses}, y : {p[2] : p \in AnnPoses}, z : {0, 1}, a : {0, 5, 18}, size : Sizes,
                pts : PtsSet, vis : VisSet, attr : BOOLEAN]
\* an instance is annotated at most once per sample
WellFormed(anns) == \A p, q \in anns : (p # q) => ~(p.sample = q.sample /\ p.inst = q.inst)
AnnSets(n) == {S \in RandomSubset(Sample, SUBSET RandomSubset(6, AnnSpace(n))) : WellFormed(S)}

Init == /\ phase = "input" /\ out = <<>> /\ merge \in BOOLEAN
        /\ \E sl \in SampleLists : \E cats \in [1..MaxInst -> Cats] : \E anns \in AnnSets(Len(sl)) :
              ds = [samples |-> sl, cats |-> cats, anns |-> anns]
Next == /\ phase = "input" /\ phase' = "done"
        /\ out' = [det_ego |-> Load(ds, "base_link", "detection", merge), det_map |-> Load(ds, "map", "detection", merge),
                   trk_map |-> Load(ds, "map", "tracking", merge), trk_ego |-> Load(ds, "base_link", "tracking", merge)]
        /\ UNCHANGED <<ds, merge>>

LawFrames == OneFramePerSample(ds, Load(ds, "map", "detection", merge)) /\ OneObjectPerAnnotation(ds, Load(ds, "base_link", "detection", merge))
LawEgoMap == EgoMapConsistent(ds, merge)
=============================================================================
