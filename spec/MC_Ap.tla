------------------------------- MODULE MC_Ap -------------------------------
(* Engines M and R for C04/C08: every ranking up to length N over          *)
(* {TP(w), FP, IG} with every ground-truth count 0..MaxG.  `Eval` stores   *)
(* the specification's outputs so a dumped state is a complete replay case. *)
EXTENDS Ap, TLC
CONSTANT MaxG

VARIABLES r, g, phase, out
mvars == <<r, g, phase, out>>

RECURSIVE SeqsUpTo(_)
SeqsUpTo(n) == IF n = 0 THEN {<<>>} ELSE SeqsUpTo(n - 1) \cup [1..n -> Entries]

Init == /\ r \in SeqsUpTo(N) /\ g \in 0..MaxG
        /\ phase = "input" /\ out = <<>>

Eval == /\ phase = "input" /\ phase' = "done"
        /\ out' = [tp |-> TpList(r, FALSE), tph |-> TpList(r, TRUE), fp |-> FpList(r),
                   ap |-> OpAP(r, g, FALSE), aph |-> OpAP(r, g, TRUE), unit |-> Unit(g)]
        /\ UNCHANGED <<r, g>>
Next == Eval

InvOpEqDecl == OpEqDecl(r, g)
InvBounds == Bounds(r, g)
InvZero == ZeroWithoutTP(r, g)
InvPerfect == PerfectIsOne(r, g)
InvIgnored == IgnoredActsAsFP(r, g)
InvPromotion == PromotionMonotone(r, g)
=============================================================================
