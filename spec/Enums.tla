------------------------------- MODULE Enums -------------------------------
(***************************************************************************)
(* String -> enum member parsers of the configuration enums                *)
(* (EvaluationTask.from_value / set_task, FrameID.from_value,              *)
(*  Visibility.from_value, SensorModality.from_value, ShapeType.from_value,*)
(*  MatchingLabelPolicy.from_str).                                         *)
(*                                                                         *)
(* TLC strings are atomic, so spellings travel as sequences of byte codes  *)
(* and the specification folds case itself.  A member table is a sequence  *)
(* of member VALUES (byte sequences); Parse returns the index of the       *)
(* member, 0 for "rejected".                                               *)
(***************************************************************************)
EXTENDS Integers, Sequences, FiniteSets

Lower(c) == IF c \in 65..90 THEN c + 32 ELSE c
Upper(c) == IF c \in 97..122 THEN c - 32 ELSE c
LowerSeq(s) == [i \in DOMAIN s |-> Lower(s[i])]
UpperSeq(s) == [i \in DOMAIN s |-> Upper(s[i])]

\* documented case handling of each parser
Fold(enum) == IF enum = "FrameID" THEN "lower"
              ELSE IF enum = "MatchingLabelPolicy" THEN "upper"
              ELSE "none"
Norm(enum, s) == IF Fold(enum) = "none" THEN s ELSE LowerSeq(s)

Hits(enum, members, input) == {i \in DOMAIN members : Norm(enum, members[i]) = Norm(enum, input)}
First(S) == CHOOSE i \in S : \A j \in S : i <= j

\* "v0-40" etc. as byte sequences
Str_v0_40 == <<118, 48, 45, 52, 48>>
Str_v40_60 == <<118, 52, 48, 45, 54, 48>>
Str_v60_80 == <<118, 54, 48, 45, 56, 48>>
Str_v80_100 == <<118, 56, 48, 45, 49, 48, 48>>
Str_none == <<110, 111, 110, 101>>
Str_partial == <<112, 97, 114, 116, 105, 97, 108>>
Str_most == <<109, 111, 115, 116>>
Str_full == <<102, 117, 108, 108>>
Str_unavailable == <<110, 111, 116, 32, 97, 118, 97, 105, 108, 97, 98, 108, 101>>

IndexOfValue(members, v) == IF \E i \in DOMAIN members : members[i] = v
                            THEN First({i \in DOMAIN members : members[i] = v}) ELSE 0

\* Visibility: documented aliases, everything else -> UNAVAILABLE
VisibilityFallback(members, input) ==
  IF input = Str_v0_40 THEN IndexOfValue(members, Str_none)
  ELSE IF input = Str_v40_60 THEN IndexOfValue(members, Str_partial)
  ELSE IF input = Str_v60_80 THEN IndexOfValue(members, Str_most)
  ELSE IF input = Str_v80_100 THEN IndexOfValue(members, Str_full)
  ELSE IndexOfValue(members, Str_unavailable)

\* index of the member a string parses to; 0 = rejected
Parse(enum, members, input) ==
  IF Hits(enum, members, input) # {} THEN First(Hits(enum, members, input))
  ELSE IF enum = "Visibility" THEN VisibilityFallback(members, input)
  ELSE 0

(* laws (checked by MC_Enums on abstract tables, and on the real tables in Trace_Enums) *)
DistinctValues(enum, members) == \A i, j \in DOMAIN members : i # j => Norm(enum, members[i]) # Norm(enum, members[j])
RoundTrip(enum, members) == DistinctValues(enum, members) => \A i \in DOMAIN members : Parse(enum, members, members[i]) = i
CaseIrrelevantWhenFolded(enum, members, input) ==
  Fold(enum) # "none" => /\ Parse(enum, members, UpperSeq(input)) = Parse(enum, members, input)
                         /\ Parse(enum, members, LowerSeq(input)) = Parse(enum, members, input)
NonMemberRejected(enum, members, input) ==
  (enum # "Visibility" /\ Hits(enum, members, input) = {}) => Parse(enum, members, input) = 0
=============================================================================
