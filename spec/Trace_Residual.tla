--------------------------- MODULE Trace_Residual ---------------------------
(***************************************************************************)
(* Engine T for relational laws on continuous inputs that have no lattice  *)
(* form: the driver evaluates both sides of a law on the real code, logs   *)
(* the residual |lhs - rhs| in 1e-9 units (capped at 2e9) together with    *)
(* the law's name and the stated tolerance, and TLC decides every event.   *)
(* Used by C17 (a static object seen from a tilting, moving ego keeps its  *)
(* map pose at every interpolated time).                                   *)
(***************************************************************************)
EXTENDS Integers, Sequences, TLC, Json, IOUtils
VARIABLES l, nrej
Trace == ndJsonDeserialize(IOEnv.TRACE_FILE)
Ev == Trace[l]
Verdict(ev) == IF ev.res9 < 0 THEN "residual-undefined" ELSE IF ev.res9 > ev.tol9 THEN ev.law ELSE "ok"
TraceInit == l = 1 /\ nrej = 0
TraceNext == /\ l <= Len(Trace) /\ l' = l + 1
             /\ IF Verdict(Ev) = "ok" THEN UNCHANGED nrej
                ELSE PrintT(<<"REJECT", Ev.tid, l, Verdict(Ev)>>) /\ nrej' = nrej + 1
Consumed == TLCGet("stats").diameter - 1 = Len(Trace)
=============================================================================
