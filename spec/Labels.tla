------------------------------- MODULE Labels -------------------------------
(***************************************************************************)
(* Label algebra shared by the matching / filtering / pass-fail modules.   *)
(* Labels are strings (the enum values of AutowareLabel /                  *)
(* TrafficLightLabel).  "false_positive" is the FP label, "unknown" the    *)
(* unknown label (CommonLabel.FP / CommonLabel.UNKNOWN).                   *)
(***************************************************************************)
EXTENDS Integers, Sequences

FP == "false_positive"
UNKNOWN == "unknown"

IsFP(l) == l = FP
IsUnknown(l) == l = UNKNOWN

\* MatchingLabelPolicy.is_matchable(estimation, ground_truth)
Compat(policy, el, gl) ==
  \/ IsFP(gl)
  \/ policy = "ALLOW_ANY"
  \/ el = gl
  \/ (policy = "ALLOW_UNKNOWN" /\ IsUnknown(el))

Policies == {"DEFAULT", "ALLOW_UNKNOWN", "ALLOW_ANY"}

\* index of a label in a target list (0 when absent) -- list.index / `in`
IndexOf(l, targets) ==
  IF \E i \in DOMAIN targets : targets[i] = l
  THEN CHOOSE i \in DOMAIN targets : targets[i] = l /\ \A j \in DOMAIN targets : targets[j] = l => i <= j
  ELSE 0

InTargets(l, targets) == IndexOf(l, targets) # 0

\* get_label_threshold(label, targets, list): the entry at the label's index, NoThr when
\* the list is absent or the label is not a target
\* thresholds are sequences (<<num, den>> rationals or <<v>>), so "no threshold" is <<>>
NoThr == <<>>
LabelThreshold(l, targets, list) ==
  IF list = <<>> \/ ~InTargets(l, targets) THEN NoThr ELSE list[IndexOf(l, targets)]
=============================================================================
