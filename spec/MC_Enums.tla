------------------------------ MODULE MC_Enums ------------------------------
(* Engine M for C20: the laws of Enums!Parse over all tables of two members *)
(* and all inputs, spellings of length <= 2 over the bytes {A, B, a, b}.    *)
EXTENDS Enums, TLC
VARIABLES enum, members, input, phase
Bytes == {65, 66, 97, 98}
Strs == {<<>>} \cup [1..1 -> Bytes] \cup [1..2 -> Bytes]
Init == /\ enum \in {"FrameID", "MatchingLabelPolicy", "ShapeType", "Visibility"}
        /\ members \in [1..2 -> Strs \ {<<>>}] /\ input \in Strs /\ phase = 0
Next == phase = 0 /\ phase' = 1 /\ UNCHANGED <<enum, members, input>>
LawRoundTrip == RoundTrip(enum, members)
LawCase == CaseIrrelevantWhenFolded(enum, members, input)
LawReject == NonMemberRejected(enum, members, input)
=============================================================================
