------------------------------ MODULE Trace_Ap ------------------------------
(***************************************************************************)
(* Engine T for C04/C08: Ap / Map computations of the real library on      *)
(* random object results (rankings up to 300 entries), validated against   *)
(* the definitions of Ap.tla in fixed point.                               *)
(*                                                                         *)
(* One bucket = ApBegin (label, policy, threshold thr6, maximize, g, n),   *)
(* then one Entry per result in order of descending confidence (estimate   *)
(* label el, ground-truth label gl or "none", matching score s6 in 1e-6    *)
(* fixed point, heading weight hw3 in 1e-3, and the library's cumulative   *)
(* tp / fp / weighted-tp values AT THAT RANK), then ApEnd (ap6, aph6;      *)
(* -1 for inf).  Each Entry is one step of the specification: TLC derives  *)
(* the entry's kind (TP / FP / ignored) from labels, policy, score and     *)
(* threshold, advances its own cumulative counts and compares.  ApEnd      *)
(* recomputes the interpolated area from the specification's counts with   *)
(* exact cross-multiplied precision comparisons and a stated error bound.  *)
(* Event "Map": aps (list of ap6), map6 -- mean over the defined APs;      *)
(* single = each label's AP computed alone with its own threshold.         *)
(* Event "Mono" (C08): a ladder of thresholds on fixed results.            *)
(* Verdicts are total; a rejected bucket is reported and skipped.          *)
(***************************************************************************)
EXTENDS Integers, Sequences, FiniteSets, Labels, TLC, Json, IOUtils

VARIABLES l, nrej, last,
          cur,        \* parameters of the bucket being ranked (from ApBegin)
          c, f, w     \* cumulative TP count, FP count, heading weight (1e-3) after each rank

Trace == ndJsonDeserialize(IOEnv.TRACE_FILE)
Ev == Trace[l]

Abs(x) == IF x < 0 THEN -x ELSE x
LastOr0(s) == IF Len(s) = 0 THEN 0 ELSE s[Len(s)]

\* kind of a ranked entry: 1 = TP, 0 = FP, -1 = ignored
Kind(p, e) ==
  LET thrLabel == IF e.gl # "none" THEN e.gl ELSE e.el
      beats == IF p.maximize = 1 THEN e.s6 > p.thr6 ELSE e.s6 < p.thr6
  IN IF thrLabel # p.label THEN -1
     ELSE IF e.gl = "none" THEN 0
     ELSE IF IsFP(e.gl) THEN (IF ~beats THEN 1 ELSE 0)
     ELSE IF beats /\ Compat(p.policy, e.el, e.gl) THEN 1 ELSE 0

\* backward envelope over a cumulative sequence cc, precision cc[i]/i compared exactly by cross-multiplication;
\* sum over envelope points of floor(cc[m]*scale/m) * (cc[m] - cc[next point])
RECURSIVE Env(_, _, _, _)
Env(cc, i, m, scale) ==
  IF i = 0 THEN ((cc[m] * scale) \div m) * cc[m]
  ELSE IF cc[i] * m > cc[m] * i
       THEN ((cc[m] * scale) \div m) * (cc[m] - cc[i]) + Env(cc, i - 1, i, scale)
       ELSE Env(cc, i - 1, m, scale)

\* minimal difference of two yaws given in 0.1 mrad (62832 units per turn)
HeadD(a, b) == LET d == (((a - b) % 62832) + 62832) % 62832 IN IF d > 31416 THEN 62832 - d ELSE d

\* one ranked result: the specification advances its cumulative counts and compares the library's lists at this rank
EntryVerdict(e) ==
  LET k == Kind(cur, e)
      c1 == LastOr0(c) + (IF k = 1 THEN 1 ELSE 0)
      f1 == LastOr0(f) + (IF k = 0 THEN 1 ELSE 0)
      w1 == LastOr0(w) + (IF k = 1 THEN e.hw3 ELSE 0)
  IN IF e.hw3 < 0 \/ e.hw3 > 1000 THEN "heading-weight-out-of-unit-interval"
     ELSE IF e.gl # "none" /\ Abs(e.hw3 * 31416 - (31416 - HeadD(e.ya4, e.yb4)) * 1000) > 3 * 31416 THEN "heading-weight-not-1-minus-d-over-pi"
     ELSE IF e.tp # c1 THEN "tp_list"
     ELSE IF e.fp # f1 THEN "fp_list"
     ELSE IF Abs(e.tph3 - w1) > Len(c) + 1 THEN "tph_list"
     ELSE "ok"

EndVerdict(ev) ==
  LET n == Len(c)  g == cur.g IN
  IF n # cur.n THEN "missing-entries"
  ELSE IF n = 0 THEN (IF ev.ap6 = -1 /\ ev.aph6 = -1 THEN "ok" ELSE "empty-ranking-must-be-undefined")
  ELSE IF g = 0 THEN (IF ev.ap6 = 0 /\ ev.aph6 = 0 THEN "ok" ELSE "ap-without-ground-truth")
  ELSE IF Abs(ev.ap6 * g - Env(c, n - 1, n, 1000000)) > g + n + 1 THEN "ap-area"
  ELSE IF ev.ap6 < 0 \/ (c[n] <= g /\ ev.ap6 > 1000000) THEN "ap-bounds"
  ELSE IF n <= 150 /\ Abs(ev.aph6 * g * 10 - Env(w, n - 1, n, 10)) > 10000 * (g + n) THEN "aph-area"
  ELSE IF ev.aph6 > ev.ap6 + 1 THEN "aph-exceeds-ap"
  ELSE "ok"

RECURSIVE SumSeq(_, _)
SumSeq(s, i) == IF i = 0 THEN 0 ELSE SumSeq(s, i - 1) + (IF s[i] >= 0 THEN s[i] ELSE 0)
MapVerdict(ev) ==
  LET k == Cardinality({i \in 1..Len(ev.aps) : ev.aps[i] >= 0}) IN
  \* "single": the AP of each label of the label list, computed alone with that label's own threshold
  IF Len(ev.aps) # Len(ev.single) THEN "map-not-one-ap-per-label"
  ELSE IF \E i \in 1..Len(ev.aps) : Abs(ev.aps[i] - ev.single[i]) > 1 THEN "map-per-label-ap-is-not-the-labels-own-ap"
  ELSE IF k = 0 THEN (IF ev.map6 = -1 THEN "ok" ELSE "map-of-nothing-must-be-undefined")
  ELSE IF Abs(ev.map6 * k - SumSeq(ev.aps, Len(ev.aps))) > k THEN "map-mean"
  ELSE "ok"

\* C08: a ladder of thresholds from tight to loose on the same results
MonoVerdict(ev) ==
  IF \E i \in 1..(Len(ev.ntp) - 1) : ev.ntp[i] > ev.ntp[i + 1] THEN "tp-count-decreased"
  ELSE IF \E i \in 1..(Len(ev.nfn) - 1) : ev.nfn[i] < ev.nfn[i + 1] THEN "fn-count-increased"
  ELSE IF \E i \in 1..(Len(ev.ap6) - 1) : ev.ap6[i] > ev.ap6[i + 1] + 1 THEN "ap-decreased"
  ELSE IF \E i \in 1..(Len(ev.aph6) - 1) : ev.aph6[i] > ev.aph6[i + 1] + 1 THEN "aph-decreased"
  ELSE IF \E i \in 1..(Len(ev.map6) - 1) : ev.map6[i] > ev.map6[i + 1] + 1 THEN "map-decreased"
  ELSE IF \E i \in 1..Len(ev.subset) : ev.subset[i] # 1 THEN "tp-lost"
  \* pfeq[i] = 1: at rung i the frame-level pass/fail result holds exactly the TPs / FNs of the threshold decisions
  ELSE IF \E i \in 1..Len(ev.pfeq) : ev.pfeq[i] # 1 THEN "pass-fail-result-differs-from-the-threshold-decisions"
  ELSE "ok"

NoCur == [tid |-> 0]

TraceInit == l = 1 /\ nrej = 0 /\ last = "none" /\ cur = NoCur /\ c = <<>> /\ f = <<>> /\ w = <<>>

Reject(why) == PrintT(<<"REJECT", Ev.tid, l, why>>) /\ nrej' = nrej + 1 /\ last' = why

TraceNext ==
  /\ l <= Len(Trace)
  /\ l' = l + 1
  /\ IF Ev.ev = "ApBegin" THEN
        cur' = Ev /\ c' = <<>> /\ f' = <<>> /\ w' = <<>> /\ last' = "ok" /\ UNCHANGED nrej
     ELSE IF Ev.ev = "Entry" THEN
        IF cur.tid # Ev.tid THEN UNCHANGED <<cur, c, f, w, nrej, last>>     \* rest of a rejected bucket
        ELSE IF EntryVerdict(Ev) = "ok" THEN
           LET k == Kind(cur, Ev) IN
           /\ c' = Append(c, LastOr0(c) + (IF k = 1 THEN 1 ELSE 0))
           /\ f' = Append(f, LastOr0(f) + (IF k = 0 THEN 1 ELSE 0))
           /\ w' = Append(w, LastOr0(w) + (IF k = 1 THEN Ev.hw3 ELSE 0))
           /\ last' = "ok" /\ UNCHANGED <<cur, nrej>>
        ELSE Reject(EntryVerdict(Ev)) /\ cur' = NoCur /\ UNCHANGED <<c, f, w>>
     ELSE IF Ev.ev = "ApEnd" THEN
        IF cur.tid # Ev.tid THEN UNCHANGED <<cur, c, f, w, nrej, last>>
        ELSE IF EndVerdict(Ev) = "ok" THEN last' = "ok" /\ cur' = NoCur /\ UNCHANGED <<c, f, w, nrej>>
        ELSE Reject(EndVerdict(Ev)) /\ cur' = NoCur /\ UNCHANGED <<c, f, w>>
     ELSE IF Ev.ev = "Map" THEN
        (IF MapVerdict(Ev) = "ok" THEN last' = "ok" /\ UNCHANGED nrej ELSE Reject(MapVerdict(Ev))) /\ UNCHANGED <<cur, c, f, w>>
     ELSE IF Ev.ev = "Mono" THEN
        (IF MonoVerdict(Ev) = "ok" THEN last' = "ok" /\ UNCHANGED nrej ELSE Reject(MonoVerdict(Ev))) /\ UNCHANGED <<cur, c, f, w>>
     ELSE Reject("unknown-event") /\ UNCHANGED <<cur, c, f, w>>

\* along every accepted trace: cumulative counts are consistent with the rank
CountsConsistent == \A i \in 1..Len(c) : c[i] + f[i] <= i /\ w[i] <= 1000 * c[i] + i

Consumed == TLCGet("stats").diameter - 1 = Len(Trace)
=============================================================================
