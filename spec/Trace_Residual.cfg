INIT TraceInit
NEXT TraceNext
POSTCONDITION Consumed
CHECK_DEADLOCK FALSE
