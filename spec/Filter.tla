------------------------------- MODULE Filter -------------------------------
(***************************************************************************)
(* Object filtering (perception_eval/evaluation/matching/objects_filter.py:*)
(* _is_target_object, filter_objects, filter_object_results).              *)
(*                                                                         *)
(* Objects are records with ego-relative integer coordinates:              *)
(*   [x, y, label, conf, attr, pts, uuid]                                  *)
(*     conf : confidence (integer percent), attr : 0 = no attribute, 1 =   *)
(*     carries exactly an ignored attribute, 2 = carries an attribute that *)
(*     merely contains the ignored key as a sub-string (NOT ignored), 3 =  *)
(*     its original label name contains the ignored key (ignored);         *)
(*     pts : lidar points inside, uuid : is in the target list             *)
(* Parameters P:                                                           *)
(*   [targets : Seq(label), ignoreAttr : BOOLEAN,                          *)
(*    xmax, ymax, dmax, dmin : per-label bounds in HALF units (<<>> =      *)
(*    not configured; |x| < b  <=>  2|x| < B), minPts, conf : per-label    *)
(*    lists or <<>>, uuids : BOOLEAN (a target uuid list is configured)]   *)
(* Documented relaxations: FP-labelled objects always pass; an estimate    *)
(* labelled unknown, when unknown is not a target, skips the label and     *)
(* attribute tests, needs confidence > 0 and is judged against the MEAN of *)
(* each bound list.  Confidence is tested for estimates only, point count  *)
(* and uuid for ground truth only.                                         *)
(***************************************************************************)
EXTENDS Integers, Sequences, FiniteSets, Labels

Abs(x) == IF x < 0 THEN -x ELSE x

RECURSIVE SumTo(_, _)
SumTo(s, i) == IF i = 0 THEN 0 ELSE SumTo(s, i - 1) + s[i]
Sum(s) == SumTo(s, Len(s))

Thr(l, targets, list) == list[IndexOf(l, targets)]

\* Label.contains_any: the key is a sub-string of the original name or a member of the attribute list
HasIgnored(o) == o.attr \in {1, 3}

Relaxed(o, isGT, P) == IsUnknown(o.label) /\ ~isGT /\ ~InTargets(UNKNOWN, P.targets)

\* |v| < bound(label)   with v2 = 2|v| and the bound list in half units; mean of the list when relaxed
Below(v2, list, o, rel, P) ==
  IF list = <<>> THEN TRUE
  ELSE IF rel THEN Len(list) * v2 < Sum(list)
  ELSE v2 < Thr(o.label, P.targets, list)

D2x4(o) == 4 * (o.x * o.x + o.y * o.y)          \* (2 * planar distance)^2

DistBelow(o, list, rel, P) ==
  IF list = <<>> THEN TRUE
  ELSE IF rel THEN Len(list) * Len(list) * D2x4(o) < Sum(list) * Sum(list)
  ELSE D2x4(o) < Thr(o.label, P.targets, list) * Thr(o.label, P.targets, list)

DistAbove(o, list, rel, P) ==
  IF list = <<>> THEN TRUE
  ELSE IF rel THEN Len(list) * Len(list) * D2x4(o) > Sum(list) * Sum(list)
  ELSE D2x4(o) > Thr(o.label, P.targets, list) * Thr(o.label, P.targets, list)

IsTarget(o, isGT, P) ==
  IF IsFP(o.label) THEN TRUE
  ELSE
    LET rel == Relaxed(o, isGT, P) IN
    /\ (rel \/ P.targets = <<>> \/ InTargets(o.label, P.targets))
    /\ (rel \/ ~P.ignoreAttr \/ ~HasIgnored(o))
    /\ (isGT \/ P.conf = <<>> \/ (IF rel THEN o.conf > 0 ELSE o.conf > Thr(o.label, P.targets, P.conf)))
    /\ Below(2 * Abs(o.x), P.xmax, o, rel, P)
    /\ Below(2 * Abs(o.y), P.ymax, o, rel, P)
    /\ DistBelow(o, P.dmax, rel, P)
    /\ DistAbove(o, P.dmin, rel, P)
    /\ (~isGT \/ P.minPts = <<>> \/ o.pts >= Thr(o.label, P.targets, P.minPts))
    /\ (~isGT \/ ~P.uuids \/ o.uuid)

\* filter_objects: order-preserving sub-list of ids
RECURSIVE FilterIds(_, _, _, _)
FilterIds(ids, objs, isGT, P) ==
  IF ids = <<>> THEN <<>>
  ELSE (IF IsTarget(objs[Head(ids)], isGT, P) THEN <<Head(ids)>> ELSE <<>>) \o FilterIds(Tail(ids), objs, isGT, P)

\* filter_object_results: a result <<e, g>> (g = 0: no ground truth) survives iff its estimate passes (without the
\* attribute / point / uuid tests) and its ground truth, when present, passes (without the confidence test); a
\* result without ground truth fails when target uuids are configured
EstParams(P) == [P EXCEPT !.ignoreAttr = FALSE, !.minPts = <<>>, !.uuids = FALSE]
GtParams(P) == [P EXCEPT !.conf = <<>>]
ResultPasses(r, ests, gts, P) ==
  /\ IsTarget(ests[r[1]], FALSE, EstParams(P))
  /\ IF r[2] # 0 THEN IsTarget(gts[r[2]], TRUE, GtParams(P)) ELSE ~P.uuids

RECURSIVE FilterResults(_, _, _, _)
FilterResults(rs, ests, gts, P) ==
  IF rs = <<>> THEN <<>>
  ELSE (IF ResultPasses(Head(rs), ests, gts, P) THEN <<Head(rs)>> ELSE <<>>) \o FilterResults(Tail(rs), ests, gts, P)

NoFilter == [targets |-> <<>>, ignoreAttr |-> FALSE, xmax |-> <<>>, ymax |-> <<>>, dmax |-> <<>>, dmin |-> <<>>,
             minPts |-> <<>>, conf |-> <<>>, uuids |-> FALSE]

(* ---- properties (C10) --------------------------------------------------- *)
IsSubSeq(a, b) ==   \* a is an order-preserving sub-list of b (ids distinct)
  /\ \A i \in 1..Len(a) : \E j \in 1..Len(b) : a[i] = b[j]
  /\ \A i, k \in 1..Len(a) : i < k =>
        (CHOOSE j \in 1..Len(b) : b[j] = a[i]) < (CHOOSE j \in 1..Len(b) : b[j] = a[k])

KeptExactly(ids, objs, isGT, P) ==
  LET out == FilterIds(ids, objs, isGT, P) IN
  /\ IsSubSeq(out, ids)
  /\ \A i \in 1..Len(ids) : (\E j \in 1..Len(out) : out[j] = ids[i]) <=> IsTarget(objs[ids[i]], isGT, P)
Idempotent(ids, objs, isGT, P) ==
  FilterIds(FilterIds(ids, objs, isGT, P), objs, isGT, P) = FilterIds(ids, objs, isGT, P)

\* pointwise wider bounds
Wider(P, Q) ==
  /\ Q.targets = P.targets /\ Q.ignoreAttr = P.ignoreAttr /\ Q.uuids = P.uuids /\ Q.conf = P.conf /\ Q.minPts = P.minPts
  /\ Len(Q.xmax) = Len(P.xmax) /\ \A i \in 1..Len(P.xmax) : Q.xmax[i] >= P.xmax[i]
  /\ Len(Q.ymax) = Len(P.ymax) /\ \A i \in 1..Len(P.ymax) : Q.ymax[i] >= P.ymax[i]
  /\ Len(Q.dmax) = Len(P.dmax) /\ \A i \in 1..Len(P.dmax) : Q.dmax[i] >= P.dmax[i]
  /\ Len(Q.dmin) = Len(P.dmin) /\ \A i \in 1..Len(P.dmin) : Q.dmin[i] <= P.dmin[i]
WideningMonotone(o, isGT, P, Q) == (Wider(P, Q) /\ IsTarget(o, isGT, P)) => IsTarget(o, isGT, Q)
=============================================================================
