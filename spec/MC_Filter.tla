------------------------------ MODULE MC_Filter ------------------------------
(***************************************************************************)
(* Engines M and R for C10: the filter predicate on every single object of *)
(* a lattice x label x attribute x confidence x points x uuid grid against *)
(* every parameter set of the slice, and filter_objects /                  *)
(* filter_object_results on short lists.  `Eval` stores the specification's*)
(* outputs so that each dumped state is a replay case.                     *)
(***************************************************************************)
EXTENDS Filter, TLC, Randomization

CONSTANTS XS, YS, LabelSet, ConfSet, PtsSet, AttrVals, ParamSet, WideSet, MaxObjs, Sample

VARIABLES objs, isGT, P, phase, out
fvars == <<objs, isGT, P, phase, out>>

ObjSpace == [x : XS, y : YS, label : LabelSet, conf : ConfSet, attr : AttrVals, pts : PtsSet, uuid : BOOLEAN]

ListSpace ==
  IF Sample = 0 THEN UNION {[1..n -> ObjSpace] : n \in 1..MaxObjs}
  ELSE UNION {RandomSubset(Sample, [1..n -> ObjSpace]) : n \in 1..MaxObjs}

Init == /\ objs \in ListSpace /\ isGT \in BOOLEAN /\ P \in ParamSet
        /\ phase = "input" /\ out = <<>>

Ids == [i \in 1..Len(objs) |-> i]
\* results for filter_object_results: estimate i paired with ground truth i+1 (odd i), last odd one unpaired
PairsOf == [k \in 1..((Len(objs) + 1) \div 2) |-> <<2 * k - 1, IF 2 * k <= Len(objs) THEN 2 * k ELSE 0>>]

Eval == /\ phase = "input" /\ phase' = "done"
        /\ out' = [kept |-> FilterIds(Ids, objs, isGT, P),
                   results |-> FilterResults(PairsOf, objs, objs, P)]
        /\ UNCHANGED <<objs, isGT, P>>
Next == Eval

InvKeptExactly == KeptExactly(Ids, objs, isGT, P)
InvIdempotent == Idempotent(Ids, objs, isGT, P)
InvWidening == \A Q \in WideSet : \A i \in 1..Len(objs) : WideningMonotone(objs[i], isGT, P, Q)
InvFpAlwaysPasses == \A i \in 1..Len(objs) : IsFP(objs[i].label) => IsTarget(objs[i], isGT, P)
InvResultNeedsBoth == phase = "done" =>
   \A k \in 1..Len(PairsOf) :
      (\E j \in 1..Len(out.results) : out.results[j] = PairsOf[k]) <=> ResultPasses(PairsOf[k], objs, objs, P)
=============================================================================
