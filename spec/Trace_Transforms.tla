-------------------------- MODULE Trace_Transforms --------------------------
(***************************************************************************)
(* Engine T for C18: random rotations (any axis/angle, both quaternion     *)
(* signs, matrix or quaternion input) and translations.  The harness logs  *)
(* residuals of the laws of Transforms.tla computed with the real class, in*)
(* 1e-9 units: round trip through the inverse (position and orientation),  *)
(* composition vs two steps, pose transform vs matrix product, inverse of  *)
(* inverse; and the frame labels of composed / inverted transforms.        *)
(***************************************************************************)
EXTENDS Integers, Sequences, TLC, Json, IOUtils
VARIABLES l, nrej
Trace == ndJsonDeserialize(IOEnv.TRACE_FILE)
Ev == Trace[l]
Tol == 2000      \* 2e-6 absolute on coordinates up to 1e3 m
Verdict(ev) ==
  IF ev.round_trip_pos > Tol THEN "inverse-round-trip-position"
  ELSE IF ev.round_trip_rot > Tol THEN "inverse-round-trip-orientation"
  ELSE IF ev.compose_vs_steps > Tol THEN "compose-not-two-steps"
  ELSE IF ev.pose_vs_matrix > Tol THEN "pose-transform-not-matrix-product"
  ELSE IF ev.inv_inv > Tol THEN "inverse-not-involutive"
  ELSE IF ev.labels_ok # 1 THEN "frame-labels"
  ELSE IF ev.mismatch_rejected # 1 THEN "mismatched-composition-accepted"
  ELSE "ok"
TraceInit == l = 1 /\ nrej = 0
TraceNext == /\ l <= Len(Trace) /\ l' = l + 1
             /\ IF Verdict(Ev) = "ok" THEN UNCHANGED nrej
                ELSE PrintT(<<"REJECT", Ev.tid, l, Verdict(Ev)>>) /\ nrej' = nrej + 1
Consumed == TLCGet("stats").diameter - 1 = Len(Trace)
=============================================================================
