----------------------------- MODULE Dataset2D -----------------------------
(***************************************************************************)
(* Loading the 2-D ground truth of a T4 / nuImages-format dataset          *)
(* (common/dataset_utils.py _sample_to_frame_2d,                           *)
(*  _merge_duplicated_traffic_lights; growth item of DESIGN section 7).    *)
(*                                                                         *)
(* ds = [samples : Seq([time, cams : set of camera channels with data]),   *)
(*       insts   : function instance -> [cat, reg]  (category name,        *)
(*                 regulatory-element id of a traffic light),              *)
(*       anns    : Seq([sample, cam, inst, box : <<x0,y0,x1,y1>>, attr])]  *)
(* in object_ann table order.  Box coordinates are in tenths of a pixel    *)
(* (the loader truncates the float corners to int and takes differences).  *)
(***************************************************************************)
EXTENDS Integers, Sequences, FiniteSets

\* extract of the label tables (LabelConv.tla has them in full)
Convert(cat, family, task) ==
  IF family = "autoware" THEN
       (IF cat = "car" THEN "car" ELSE IF cat = "pedestrian.adult" THEN "pedestrian" ELSE IF cat = "bicycle" THEN "bicycle" ELSE "unknown")
  ELSE IF task = "classification2d" THEN
       (IF cat \in {"green", "red", "yellow", "red_left"} THEN cat ELSE "unknown")
  ELSE (IF cat \in {"green", "red", "yellow", "red_left", "traffic_light"} THEN "traffic_light" ELSE "unknown")

HasRoi(task) == task \in {"detection2d", "tracking2d"}
Roi(b) == <<b[1] \div 10, b[2] \div 10, (b[3] \div 10) - (b[1] \div 10), (b[4] \div 10) - (b[2] \div 10)>>
NoRoi == <<>>

\* annotations of sample k seen by the requested cameras that have data in that sample, in table order
Visible(ds, k, cams) == SelectSeq(ds.anns, LAMBDA an : an.sample = k /\ an.cam \in cams /\ an.cam \in ds.samples[k].cams)

UuidOf(ds, an, family) == IF family = "traffic_light" THEN <<"reg", ds.insts[an.inst].reg>> ELSE <<"inst", an.inst>>

ObjectOf(ds, an, task, family) ==
  [uuid |-> UuidOf(ds, an, family), cam |-> an.cam, label |-> Convert(ds.insts[an.inst].cat, family, task), attr |-> an.attr,
   roi |-> IF HasRoi(task) THEN Roi(an.box) ELSE NoRoi]

\* traffic lights of one regulatory element are merged into one ROI-less object on the virtual camera: the common label, or the one that is
\* not `unknown` when the element was annotated (unknown, other); three or more different labels are an annotation error
MergeError(objs) ==
  \E u \in {objs[i].uuid : i \in 1..Len(objs)} : Cardinality({objs[i].label : i \in {j \in 1..Len(objs) : objs[j].uuid = u}}) > 2
Merged(objs) ==
  LET ids == {objs[i].uuid : i \in 1..Len(objs)} IN
       {LET idx == {j \in 1..Len(objs) : objs[j].uuid = u}
            labs == {objs[i].label : i \in idx}
            first == CHOOSE i \in idx : \A j \in idx : i <= j
            firstKnown == IF \E i \in idx : objs[i].label # "unknown"
                          THEN CHOOSE i \in idx : objs[i].label # "unknown" /\ \A j \in idx : objs[j].label # "unknown" => i <= j ELSE first IN
        [uuid |-> u, cam |-> "cam_traffic_light", label |-> IF Cardinality(labs) = 1 THEN objs[first].label ELSE objs[firstKnown].label,
         roi |-> NoRoi] : u \in ids}

FrameOf(ds, k, cams, task, family) ==
  LET objs == [i \in 1..Len(Visible(ds, k, cams)) |-> ObjectOf(ds, Visible(ds, k, cams)[i], task, family)]
      merging == family = "traffic_light" /\ task = "classification2d" IN
  [time |-> ds.samples[k].time, name |-> k - 1,
   kind |-> IF merging THEN "merged" ELSE "list",
   err |-> merging /\ MergeError(objs),
   objects |-> IF merging THEN (IF MergeError(objs) THEN {} ELSE Merged(objs)) ELSE objs]

Load2D(ds, cams, task, family) == [k \in 1..Len(ds.samples) |-> FrameOf(ds, k, cams, task, family)]

(* ---- properties (C16, 2-D reading) ---------------------------------------- *)
OneFramePerSample2D(ds, fr) == Len(fr) = Len(ds.samples) /\ \A k \in 1..Len(fr) : fr[k].time = ds.samples[k].time /\ fr[k].name = k - 1
\* one object per visible annotation, in table order, on the camera it was annotated in
OneObjectPerAnnotation2D(ds, cams, fr) ==
  \A k \in 1..Len(fr) : fr[k].kind = "list" =>
      /\ Len(fr[k].objects) = Len(Visible(ds, k, cams))
      /\ \A i \in 1..Len(fr[k].objects) : fr[k].objects[i].cam = Visible(ds, k, cams)[i].cam /\ fr[k].objects[i].cam \in cams
\* requesting more cameras never loses an object
CameraMonotone(ds, c1, c2, task, family) ==
  (c1 \subseteq c2 /\ ~(family = "traffic_light" /\ task = "classification2d")) =>
     \A k \in 1..Len(ds.samples) : Len(FrameOf(ds, k, c1, task, family).objects) <= Len(FrameOf(ds, k, c2, task, family).objects)
\* a merged frame has one object per regulatory element, never labelled unknown when some annotation of the element is not
MergedSound(ds, cams, fr) ==
  \A k \in 1..Len(fr) : (fr[k].kind = "merged" /\ ~fr[k].err) =>
      /\ Cardinality(fr[k].objects) = Cardinality({UuidOf(ds, Visible(ds, k, cams)[i], "traffic_light") : i \in 1..Len(Visible(ds, k, cams))})
      /\ \A o \in fr[k].objects : o.label = "unknown" =>
            \A i \in 1..Len(Visible(ds, k, cams)) :
               UuidOf(ds, Visible(ds, k, cams)[i], "traffic_light") = o.uuid => Convert(ds.insts[Visible(ds, k, cams)[i].inst].cat, "traffic_light", "classification2d") = "unknown"
=============================================================================
