------------------------------ MODULE Timeline ------------------------------
(***************************************************************************)
(* Ground-truth lookup by time (common/dataset.py get_now_frame,           *)
(* get_interpolated_now_frame, interpolate_ground_truth_frames;            *)
(* common/geometry.py interpolate_*; manager.get_ground_truth_now_frame).  *)
(*                                                                         *)
(* frames : sequence, strictly increasing in time, of                      *)
(*   [time, ego : [x, y, q], objs : function id -> [x, y, a]]              *)
(* poses are GLOBAL (map) lattice poses: integer x, y; object yaw a on the *)
(* 15-degree grid Z/24; ego yaw q in quarter turns.                        *)
(***************************************************************************)
EXTENDS Integers, Sequences, FiniteSets

Abs(x) == IF x < 0 THEN -x ELSE x
Mod(x, m) == ((x % m) + m) % m

\* indices of frames nearest in time to t
Dt(frames, i, t) == Abs(t - frames[i].time)
Nearest(frames, t) == {i \in 1..Len(frames) : \A j \in 1..Len(frames) : Dt(frames, i, t) <= Dt(frames, j, t)}

\* get_now_frame: some nearest frame if it is within the tolerance, else nothing (0)
Lookup(frames, t, tol) ==
  IF Len(frames) = 0 THEN {0}
  ELSE IF \E i \in Nearest(frames, t) : Dt(frames, i, t) <= tol THEN Nearest(frames, t) ELSE {0}

\* neighbours of t: latest frame at or before t, earliest frame after t; discarded (0) when farther than tol
Before(frames, t, tol) ==
  LET S == {i \in 1..Len(frames) : frames[i].time <= t} IN
  IF S = {} THEN 0
  ELSE LET i == CHOOSE k \in S : \A j \in S : frames[j].time <= frames[k].time IN IF t - frames[i].time <= tol THEN i ELSE 0
After(frames, t, tol) ==
  LET S == {i \in 1..Len(frames) : frames[i].time > t} IN
  IF S = {} THEN 0
  ELSE LET i == CHOOSE k \in S : \A j \in S : frames[k].time <= frames[j].time IN IF frames[i].time - t <= tol THEN i ELSE 0

\* signed minimal angular step from a to b on Z/M  (-M/2 < d < M/2 ; antipodal pairs are excluded by the statement)
Arc(a, b, M) == LET r == Mod(b - a, M) IN IF r > M \div 2 THEN r - M ELSE r
Antipodal(a, b, M) == Mod(b - a, M) = M \div 2

\* interpolated quantities are returned multiplied by den = t2 - t1
LerpNum(v1, v2, t1, t2, t) == v1 * (t2 - t1) + (v2 - v1) * (t - t1)
ArcNum(a1, a2, M, t1, t2, t) == a1 * (t2 - t1) + Arc(a1, a2, M) * (t - t1)

InterpObj(o1, o2, t1, t2, t) ==
  [x |-> LerpNum(o1.x, o2.x, t1, t2, t), y |-> LerpNum(o1.y, o2.y, t1, t2, t), a |-> ArcNum(o1.a, o2.a, 24, t1, t2, t)]
Scaled(o, den) == [x |-> o.x * den, y |-> o.y * den, a |-> o.a * den]

\* get_interpolated_now_frame
InterpLookup(frames, t, tol) ==
  LET b == Before(frames, t, tol)  a == After(frames, t, tol) IN
  IF b = 0 /\ a = 0 THEN [kind |-> "none"]
  ELSE IF b = 0 THEN [kind |-> "frame", idx |-> a]
  ELSE IF a = 0 THEN [kind |-> "frame", idx |-> b]
  ELSE LET f1 == frames[b]  f2 == frames[a]  den == f2.time - f1.time
           ids == (DOMAIN f1.objs) \cup (DOMAIN f2.objs)
       IN [kind |-> "interp", time |-> t, den |-> den,
           objs |-> [id \in ids |->
                       IF id \in DOMAIN f1.objs /\ id \in DOMAIN f2.objs THEN InterpObj(f1.objs[id], f2.objs[id], f1.time, f2.time, t)
                       ELSE IF id \in DOMAIN f1.objs THEN Scaled(f1.objs[id], den) ELSE Scaled(f2.objs[id], den)],
           ego |-> [x |-> LerpNum(f1.ego.x, f2.ego.x, f1.time, f2.time, t), y |-> LerpNum(f1.ego.y, f2.ego.y, f1.time, f2.time, t),
                    q |-> ArcNum(f1.ego.q, f2.ego.q, 4, f1.time, f2.time, t)]]

(* ---- properties (C17) ---------------------------------------------------- *)
LookupWithinTol(frames, t, tol) == \A i \in Lookup(frames, t, tol) : i # 0 => (Dt(frames, i, t) <= tol /\ i \in Nearest(frames, t))
LookupFindsNearest(frames, t, tol) == (\E i \in 1..Len(frames) : Dt(frames, i, t) <= tol) => 0 \notin Lookup(frames, t, tol)
\* at a neighbour's own timestamp the interpolation reproduces that neighbour
AtNeighbourReproduces(frames, t, tol) ==
  LET r == InterpLookup(frames, t, tol) IN
  (r.kind = "interp" /\ frames[Before(frames, t, tol)].time = t) =>
     \A id \in DOMAIN frames[Before(frames, t, tol)].objs : r.objs[id] = Scaled(frames[Before(frames, t, tol)].objs[id], r.den)
\* the interpolating lookup answers whenever the plain lookup does
InterpAnswersWhenLookupDoes(frames, t, tol) == (0 \notin Lookup(frames, t, tol)) => InterpLookup(frames, t, tol).kind # "none"
=============================================================================
