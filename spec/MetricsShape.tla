---------------------------- MODULE MetricsShape ----------------------------
(***************************************************************************)
(* The life of one MetricsScore object (one per frame result, one per      *)
(* scene result): which metric families are evaluated for which task, in   *)
(* which order, how many scores each family holds and for which matching   *)
(* mode / threshold row, and when the ground-truth count is added.         *)
(*                                                                         *)
(* evaluate_frame / get_scene_result call, in this order,                  *)
(*   evaluate_detection       if a detection configuration exists          *)
(*                            (detection, detection2d, AND the tracking    *)
(*                            tasks: "in tracking, evaluate mAP too"),     *)
(*   evaluate_tracking        if a tracking configuration exists,          *)
(*   evaluate_classification  if a classification configuration exists.    *)
(* Each call appends one score per threshold ROW, modes in the order       *)
(* centre distance, BEV IoU, and for 3-D tasks only 3-D IoU, plane         *)
(* distance.  The ground-truth count of the evaluated objects is added     *)
(* exactly once per MetricsScore, whichever families run (the detection    *)
(* call leaves it to the tracking call when both run).                     *)
(***************************************************************************)
EXTENDS Integers, Sequences

Tasks3D == {"detection", "tracking"}
Tasks2D == {"detection2d", "tracking2d", "classification2d"}
AllTasks == Tasks3D \cup Tasks2D
Is3D(t) == t \in Tasks3D
HasDetection(t) == t \in {"detection", "detection2d", "tracking", "tracking2d"}
HasTracking(t) == t \in {"tracking", "tracking2d"}
HasClassification(t) == t = "classification2d"

\* r: record center, plane, iou2d, iou3d |-> number of threshold rows configured for that mode
RowsOf(mode, k) == [i \in 1..k |-> <<mode, i>>]
Shape(t, r) == RowsOf("center", r.center) \o RowsOf("iou2d", r.iou2d)
               \o (IF Is3D(t) THEN RowsOf("iou3d", r.iou3d) \o RowsOf("plane", r.plane) ELSE <<>>)

VARIABLES task, rows, gt,       \* inputs: task, threshold rows per mode, number of ground truths handed over
          pc, maps, tracks, cls, numGt

vars == <<task, rows, gt, pc, maps, tracks, cls, numGt>>

New == pc = "new" /\ maps = <<>> /\ tracks = <<>> /\ cls = <<>> /\ numGt = 0

EvalDetection ==
  /\ pc = "new" /\ HasDetection(task)
  /\ maps' = maps \o Shape(task, rows)
  /\ numGt' = numGt + (IF HasTracking(task) THEN 0 ELSE gt)
  /\ pc' = IF HasTracking(task) THEN "detection-done" ELSE "done"
  /\ UNCHANGED <<task, rows, gt, tracks, cls>>

EvalTracking ==
  /\ pc = "detection-done" /\ HasTracking(task)
  /\ tracks' = tracks \o Shape(task, rows)
  /\ numGt' = numGt + gt
  /\ pc' = "done"
  /\ UNCHANGED <<task, rows, gt, maps, cls>>

EvalClassification ==
  /\ pc = "new" /\ HasClassification(task)
  /\ cls' = Append(cls, <<"classification", 1>>)
  /\ numGt' = numGt + gt
  /\ pc' = "done"
  /\ UNCHANGED <<task, rows, gt, maps, tracks>>

Step == EvalDetection \/ EvalTracking \/ EvalClassification

\* ------------------------------------------------------------------ properties
CountedOnce == pc = "done" => numGt = gt
NeverOvercounted == numGt <= gt
FamiliesOfTask == pc = "done" =>
  /\ (maps # <<>> => HasDetection(task))
  /\ (tracks # <<>> => HasTracking(task))
  /\ (cls # <<>> <=> HasClassification(task))
TrackingMirrorsDetection == pc = "done" /\ HasTracking(task) => tracks = maps
No3DModesIn2D == ~Is3D(task) => \A i \in 1..Len(maps) : maps[i][1] \in {"center", "iou2d"}
OneScorePerRow == pc = "done" /\ HasDetection(task) =>
  Len(maps) = rows.center + rows.iou2d + (IF Is3D(task) THEN rows.iou3d + rows.plane ELSE 0)
Terminates == pc # "done" => ENABLED Step
=============================================================================
