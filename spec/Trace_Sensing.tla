---------------------------- MODULE Trace_Sensing ----------------------------
(* Engine T for C12: random float boxes and clouds.  Event: n points, n_in /   *)
(* n_out sizes of the inside / outside selections, their overlap, the number  *)
(* of points well inside that were missed, well outside that were included,   *)
(* and inside points lost when the scale was enlarged.                        *)
EXTENDS Integers, Sequences, TLC, Json, IOUtils
VARIABLES l, nrej
Trace == ndJsonDeserialize(IOEnv.TRACE_FILE)
Ev == Trace[l]
Verdict(ev) ==
  IF ev.n_in + ev.n_out # ev.n \/ ev.overlap # 0 THEN "inside-outside-not-a-partition"
  ELSE IF ev.well_in_missed # 0 THEN "inside-point-missed"
  ELSE IF ev.well_out_included # 0 THEN "outside-point-included"
  ELSE IF ev.lost_by_enlarging # 0 THEN "enlarging-scale-removed-a-point"
  ELSE "ok"
TraceInit == l = 1 /\ nrej = 0
TraceNext == /\ l <= Len(Trace) /\ l' = l + 1
             /\ IF Verdict(Ev) = "ok" THEN UNCHANGED nrej
                ELSE PrintT(<<"REJECT", Ev.tid, l, Verdict(Ev)>>) /\ nrej' = nrej + 1
Consumed == TLCGet("stats").diameter - 1 = Len(Trace)
=============================================================================
