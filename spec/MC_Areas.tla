------------------------------ MODULE MC_Areas ------------------------------
(* Engines M and R for the area partition: every lattice point of a block around the rectangle x every division x thirds a, b; sampled point    *)
(* lists x selections for extract_area_results.                                                                                                *)
EXTENDS Areas, TLC, Randomization
CONSTANTS Span, ABs, Sample
VARIABLES kind, n, ab, p, pts, sel, phase, out

Pts == (-Span..Span) \X (-Span..Span)
Init == /\ phase = "input" /\ out = <<>> /\ n \in {1, 3, 9} /\ ab \in ABs
        /\ \/ kind = "point" /\ p \in Pts /\ pts = <<>> /\ sel = {}
           \/ kind = "select" /\ p = <<0, 0>> /\ pts \in RandomSubset(Sample, [1..4 -> RandomSubset(7, Pts)]) /\ sel \in RandomSubset(3, SUBSET (1..n))
Next == /\ phase = "input" /\ phase' = "done"
        /\ out' = IF kind = "point" THEN [area |-> AreaOf(p, n, ab[1], ab[2]), rects |-> Areas(n, ab[1], ab[2])]
                  ELSE [kept |-> Select(pts, sel, n, ab[1], ab[2])]
        /\ UNCHANGED <<kind, n, ab, p, pts, sel>>
LawPartition == kind = "point" => Partition(p, n, ab[1], ab[2])
LawRefines == kind = "point" => Refines(p, ab[1], ab[2])
=============================================================================
