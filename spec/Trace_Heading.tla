---------------------------- MODULE Trace_Heading ----------------------------
(***************************************************************************)
(* Engine T for C09: random yaws (0.1 mrad fixed point, M = 62832 units    *)
(* per turn), optional small roll/pitch, both quaternion signs, ego and    *)
(* map frame.  Event: a, b (yaws), w4 (APH weight x 1e4), e (yaw error in  *)
(* 0.1 mrad), w4r (weight with the arguments swapped), tolw / tole: extra  *)
(* tolerance (1e-4 / 0.1 mrad) for tilted objects stored in map, whose yaw *)
(* relative to the ego is defined only up to O(tilt^2); 0 otherwise.       *)
(***************************************************************************)
EXTENDS Heading, Sequences, TLC, Json, IOUtils
VARIABLES l, nrej
Trace == ndJsonDeserialize(IOEnv.TRACE_FILE)
Ev == Trace[l]
M == 62832
Verdict(ev) ==
  LET d == D(ev.a, ev.b, M) IN
  IF Abs(ev.w4 * (M \div 2) - (M \div 2 - d) * 10000) > 40000 + 31416 * ev.tolw THEN "weight-not-1-minus-d-over-pi"
  ELSE IF Abs(ev.w4 - ev.w4r) > 1 THEN "weight-not-symmetric"
  ELSE IF ev.e < -(M \div 2) - 2 \/ ev.e > M \div 2 + 2 THEN "yaw-error-out-of-range"
  ELSE IF Abs(Abs(ev.e) - d) > 4 + ev.tole THEN "yaw-error-magnitude"
  ELSE "ok"
TraceInit == l = 1 /\ nrej = 0
TraceNext == /\ l <= Len(Trace) /\ l' = l + 1
             /\ IF Verdict(Ev) = "ok" THEN UNCHANGED nrej
                ELSE PrintT(<<"REJECT", Ev.tid, l, Verdict(Ev)>>) /\ nrej' = nrej + 1
Consumed == TLCGet("stats").diameter - 1 = Len(Trace)
=============================================================================
