---------------------------- MODULE MC_Transforms ----------------------------
(* Engines M and R for C18: group laws over sampled elements of Z^3 x| O_h+  *)
(* and all behaviours of a transform registry up to a depth.                  *)
EXTENDS Transforms, TLC, Randomization
CONSTANTS TVals, Frames, Sample, MaxOps, RegFrames

VARIABLES kind, A, B, C, pose, reg, log, phase, out
vars == <<kind, A, B, C, pose, reg, log, phase, out>>

TSpace == TVals \X TVals \X TVals
ElemSpace == [R : Rots, t : TSpace, src : Frames, dst : Frames]
PoseSpace == [p : TSpace, R : Rots]
Pick(S) == RandomSubset(Sample, S)
Small(S) == RandomSubset(Sample \div 8 + 2, S)
None == [R |-> Id3, t |-> <<0, 0, 0>>, src |-> "none", dst |-> "none"]
IdLinks == {[R |-> Id3, t |-> <<0, 0, 0>>, src |-> s_, dst |-> d_] : s_ \in Frames, d_ \in Frames}
\* registry elements: a small fixed family over RegFrames
Rz90 == <<<<0, -1, 0>>, <<1, 0, 0>>, <<0, 0, 1>>>>
Rx90 == <<<<1, 0, 0>>, <<0, 0, -1>>, <<0, 1, 0>>>>
RegElems == {[R |-> r, t |-> <<1, -3, 2>>, src |-> s, dst |-> d] : r \in {Rz90, Rx90}, s \in RegFrames, d \in RegFrames}

Init ==
  /\ phase = "input" /\ out = <<>> /\ reg = {} /\ log = <<>>
  /\ \/ kind = "pair" /\ A \in Pick(ElemSpace) /\ B \in Pick(ElemSpace) /\ C = None /\ pose \in Small(PoseSpace)
     \* structured pairs: an identity-valued link between two different frames (a sensor mounted at the vehicle origin) on either side
     \/ kind = "pair" /\ A \in Small(ElemSpace) /\ B \in IdLinks /\ C = None /\ pose \in Small(PoseSpace)
     \/ kind = "pair" /\ A \in IdLinks /\ B \in Small(ElemSpace) /\ C = None /\ pose \in Small(PoseSpace)
     \/ kind = "triple" /\ A \in Small(ElemSpace) /\ B \in Small(ElemSpace) /\ C \in Small(ElemSpace) /\ pose \in Small(PoseSpace)
     \/ kind = "registry" /\ A = None /\ B = None /\ C = None /\ pose = [p |-> <<1, 2, 3>>, R |-> Id3]

Eval ==
  /\ kind \in {"pair", "triple"} /\ phase = "input" /\ phase' = "done"
  /\ out' = [applyA |-> ApplyPose(A, pose), invA |-> Inverse(A), back |-> ApplyPose(Inverse(A), ApplyPose(A, pose)),
             composable |-> Composable(A, B),
             compose |-> IF Composable(A, B) THEN Compose(A, B) ELSE None]
  /\ UNCHANGED <<kind, A, B, C, pose, reg, log>>

RegisterOp == /\ kind = "registry" /\ Len(log) < MaxOps
              /\ \E E \in RegElems : E.src # E.dst /\ reg' = Register(reg, E) /\ log' = Append(log, [op |-> "register", e |-> E])
              /\ UNCHANGED <<kind, A, B, C, pose, phase, out>>
QueryOp == /\ kind = "registry" /\ Len(log) < MaxOps
           /\ \E s \in RegFrames, d \in RegFrames :
                 log' = Append(log, [op |-> "query", s |-> s, d |-> d, kind |-> QueryKind(reg, s, d), p |-> QueryPoint(reg, s, d, pose.p)])
           /\ UNCHANGED <<kind, A, B, C, pose, reg, phase, out>>
Next == Eval \/ RegisterOp \/ QueryOp

LawInverse == kind # "registry" => (InverseRoundTrip(A, pose) /\ InverseInvolutive(A) /\ InverseLabels(A) /\ ComposeWithInverse(A))
LawCompose == kind # "registry" => (ComposeIsTwoSteps(A, B, pose.p) /\ ComposeLabels(A, B))
LawAssoc == kind = "triple" => Associative(A, B, C)
LawRegistryOnePerKey == \A X, Y \in reg : (X.src = Y.src /\ X.dst = Y.dst) => X = Y
=============================================================================
