--------------------------- MODULE MC_MetricsShape ---------------------------
(* Engines M and R for MetricsShape: every task x every number of threshold rows (0..MaxRows per mode; a 2-D configuration cannot carry  *)
(* plane-distance / 3-D IoU rows that are evaluated) x ground-truth counts.                                                              *)
EXTENDS MetricsShape, TLC
CONSTANTS MaxRows, MaxGt

RowRecs == [center : 0..MaxRows, plane : 0..MaxRows, iou2d : 0..MaxRows, iou3d : 0..MaxRows]
Init == /\ task \in AllTasks /\ rows \in RowRecs /\ gt \in 0..MaxGt /\ New
        /\ (HasClassification(task) => rows = [center |-> 0, plane |-> 0, iou2d |-> 0, iou3d |-> 0])
        /\ (HasDetection(task) => rows.center + rows.iou2d + (IF Is3D(task) THEN rows.iou3d + rows.plane ELSE 0) > 0)
Next == Step
=============================================================================
