---------------------------- MODULE MC_IdMatching ----------------------------
(* Engines M and R for C11: all small sets of ROI-less estimates / ground      *)
(* truths, generic and traffic-light, both uuid-first settings.                *)
EXTENDS IdMatching, TLC, Randomization
CONSTANTS Uuids, Labels, Cams, MaxN, Sample
VARIABLES family, ests, gts, uuidFirst, phase, out

ObjSpace == [uuid : Uuids, label : Labels, cam : Cams]
Lists == UNION {[1..n -> ObjSpace] : n \in 0..MaxN}
Pick(S) == IF Sample = 0 THEN S ELSE RandomSubset(Sample, S)

Init == /\ family \in {"generic", "tlr"} /\ uuidFirst \in BOOLEAN
        /\ ests \in {l \in Pick(Lists) : Unique(l)} /\ gts \in {l \in Pick(Lists) : Unique(l)}
        /\ (family = "generic" => ~uuidFirst)
        /\ phase = "input" /\ out = <<>>

Outcomes == IF family = "generic" THEN {GenericResults(ests, gts)} ELSE TlrOutcomes(ests, gts, uuidFirst)

Next == /\ phase = "input" /\ phase' = "done"
        /\ out' = [outcomes |-> Outcomes,
                   scores |-> [R \in Outcomes |-> Scores(NumCorrect(ests, gts, R), Cardinality(R), Len(gts))]]
        /\ UNCHANGED <<family, ests, gts, uuidFirst>>

LawStructure == \A R \in Outcomes : SameCamera(ests, gts, R) /\ EachOnce(R)
LawMaximal == (family = "tlr" /\ ~uuidFirst) => \A R \in Outcomes : LabelStageMaximal(ests, gts, R)
LawScores == \A R \in Outcomes : LET tp == NumCorrect(ests, gts, R) IN ScoresInUnit(tp, Cardinality(R), Len(gts)) /\ PerfectIsOne(tp, Cardinality(R), Len(gts))
LawSomeOutcome == Outcomes # {}
=============================================================================
