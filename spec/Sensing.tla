------------------------------ MODULE Sensing ------------------------------
(***************************************************************************)
(* Sensing evaluation (common/point.py crop_pointcloud, DynamicObject.     *)
(* crop_pointcloud / get_inside_pointcloud_num, sensing_result.py,         *)
(* sensing_frame_result.py, sensing_frame_config.py,                       *)
(* SensingEvaluationManager.crop_pointcloud / add_frame_result).           *)
(*                                                                         *)
(* Exact on a lattice: points and box centres are integer vectors, box     *)
(* sizes <<w, l, h>> integers, box headings Pythagorean directions <<C, S>>*)
(* with C^2 + S^2 = 25, scales rationals <<num, den>>.                     *)
(*   inside (x/y)  <=>  |2 den (d . u)| < 5 num l  /\ |2 den (d . v)| < 5 num w *)
(*   with d = p - c,  u = (C, S),  v = (-S, C);   z : |2 dz| <= h           *)
(* Points exactly on a vertical face are "boundary": the rotated corners   *)
(* are not exact in floating point, so nothing is demanded for them.       *)
(***************************************************************************)
EXTENDS Integers, Sequences, FiniteSets

Abs(x) == IF x < 0 THEN -x ELSE x

Along(p, b) == (p[1] - b.c[1]) * b.dir[1] + (p[2] - b.c[2]) * b.dir[2]
Across(p, b) == -(p[1] - b.c[1]) * b.dir[2] + (p[2] - b.c[2]) * b.dir[1]

InsideXY(p, b, s) == /\ Abs(2 * s[2] * Along(p, b)) < 5 * s[1] * b.s[2]
                     /\ Abs(2 * s[2] * Across(p, b)) < 5 * s[1] * b.s[1]
OnFaceXY(p, b, s) == /\ Abs(2 * s[2] * Along(p, b)) <= 5 * s[1] * b.s[2]
                     /\ Abs(2 * s[2] * Across(p, b)) <= 5 * s[1] * b.s[1]
                     /\ ~InsideXY(p, b, s)
InsideZ(p, b) == Abs(2 * (p[3] - b.c[3])) <= b.s[3]

Inside(p, b, s) == InsideXY(p, b, s) /\ InsideZ(p, b)
Boundary(p, b, s) == OnFaceXY(p, b, s) /\ InsideZ(p, b)
Outside(p, b, s) == ~Inside(p, b, s) /\ ~Boundary(p, b, s)

\* distance-dependent scale: scale(d) = s0 + (s100 - s0) d / 100, s0 = t0/10, s100 = t1/10, d integer
ScaleAt(t0, t1, d) == <<t0 * 100 + (t1 - t0) * d, 1000>>

(* ---- polygonal prisms (non-detection areas) ----------------------------- *)
\* ring : sequence of integer <<x, y>> vertices; winding number by integer cross products
Cross(a, b, p) == (b[1] - a[1]) * (p[2] - a[2]) - (b[2] - a[2]) * (p[1] - a[1])
NextIdx(ring, i) == IF i = Len(ring) THEN 1 ELSE i + 1
OnSegment(a, b, p) == /\ Cross(a, b, p) = 0
                      /\ (IF a[1] < b[1] THEN a[1] ELSE b[1]) <= p[1] /\ p[1] <= (IF a[1] < b[1] THEN b[1] ELSE a[1])
                      /\ (IF a[2] < b[2] THEN a[2] ELSE b[2]) <= p[2] /\ p[2] <= (IF a[2] < b[2] THEN b[2] ELSE a[2])
OnRing(ring, p) == \E i \in 1..Len(ring) : OnSegment(ring[i], ring[NextIdx(ring, i)], p)
WindStep(a, b, p) == IF a[2] <= p[2] /\ b[2] > p[2] /\ Cross(a, b, p) > 0 THEN 1
                     ELSE IF a[2] > p[2] /\ b[2] <= p[2] /\ Cross(a, b, p) < 0 THEN -1 ELSE 0
RECURSIVE WindFrom(_, _, _)
WindFrom(ring, p, i) == IF i = 0 THEN 0 ELSE WindFrom(ring, p, i - 1) + WindStep(ring[i], ring[NextIdx(ring, i)], p)
InRing(ring, p) == WindFrom(ring, p, Len(ring)) # 0 /\ ~OnRing(ring, p)
InPrism(ar, p) == InRing(ar.ring, p) /\ ar.zlo <= p[3] /\ p[3] <= ar.zhi
PrismBoundary(ar, p) == OnRing(ar.ring, p) /\ ar.zlo <= p[3] /\ p[3] <= ar.zhi

(* ---- properties (C12) ---------------------------------------------------- *)
Partition(p, b, s) == (Inside(p, b, s) /\ ~Boundary(p, b, s) /\ ~Outside(p, b, s))
                      \/ (~Inside(p, b, s) /\ Boundary(p, b, s) /\ ~Outside(p, b, s))
                      \/ (~Inside(p, b, s) /\ ~Boundary(p, b, s) /\ Outside(p, b, s))
\* enlarging the scale never removes an inside point:  s1 <= s2  (cross-multiplied)
ScaleMonotone(p, b, s1, s2) == (s1[1] * s2[2] <= s2[1] * s1[2] /\ Inside(p, b, s1)) => Inside(p, b, s2)
=============================================================================
