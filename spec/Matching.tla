------------------------------ MODULE Matching ------------------------------
(***************************************************************************)
(* get_object_results(...) for objects that carry geometry                 *)
(* (perception_eval/evaluation/result/object_result.py).                   *)
(*                                                                         *)
(* The implementation builds a score table over (estimate, ground truth)   *)
(* pairs, masks pairs that are not in the same frame or not within the     *)
(* matchable threshold of the ground truth's label ("valid"), and then     *)
(* runs a greedy assignment twice: stage 1 over valid pairs whose labels   *)
(* are compatible under the label policy, stage 2 over all remaining valid *)
(* pairs.  Each pick removes the estimate's row and the ground truth's     *)
(* column.  Left-over estimates become results without ground truth unless *)
(* the task is a false-positive validation.                                *)
(*                                                                         *)
(* One action per step of the implementation.  Which of several equally    *)
(* scoring pairs is picked is left open (numpy takes the first in row-major*)
(* order; no property depends on it).                                      *)
(***************************************************************************)
EXTENDS Integers, Sequences, FiniteSets

CONSTANT None          \* "no ground truth"

VARIABLES
  nE, nG,              \* number of estimates / ground truths (ids 1..nE, 1..nG)
  score,               \* [E \X G -> Int]   matching score (rank or exact value)
  valid,               \* [E \X G -> BOOLEAN] same frame /\ within matchable threshold
  compat,              \* [E \X G -> BOOLEAN] labels compatible under the policy
  maximize,            \* TRUE for IoU modes, FALSE for distances
  fpval,               \* TRUE for fp_validation tasks
  availE, availG,      \* rows / columns still in the table
  stage,               \* "start", "s1", "s2", "done"
  res                  \* sequence of <<e, g>> / <<e, None>>

inputs == <<nE, nG, score, valid, compat, maximize, fpval>>
algvars == <<availE, availG, stage, res>>
vars == <<inputs, algvars>>

E == 1..nE
G == 1..nG

Better(a, b) == IF maximize THEN a >= b ELSE a <= b
StrictlyBetter(a, b) == IF maximize THEN a > b ELSE a < b

Cand1 == {p \in availE \X availG : valid[p] /\ compat[p]}
Cand2 == {p \in availE \X availG : valid[p]}
Best(C, p) == p \in C /\ \A q \in C : Better(score[p], score[q])

\* ascending sequence of a finite set of integers
RECURSIVE SetToSeq(_)
SetToSeq(S) == IF S = {} THEN <<>>
               ELSE LET m == CHOOSE x \in S : \A y \in S : x <= y
                    IN <<m>> \o SetToSeq(S \ {m})

Leftovers(S) == [i \in 1..Cardinality(S) |-> <<SetToSeq(S)[i], None>>]

(* ---- actions ---------------------------------------------------------- *)

\* the three early returns and the normal entry
Begin ==
  /\ stage = "start"
  /\ IF nE = 0 THEN
        res' = <<>> /\ stage' = "done" /\ availE' = {} /\ availG' = G
     ELSE IF nG = 0 THEN
        /\ res' = IF fpval THEN <<>> ELSE Leftovers(E)
        /\ stage' = "done" /\ availE' = {} /\ availG' = {}
     ELSE
        res' = <<>> /\ stage' = "s1" /\ availE' = E /\ availG' = G
  /\ UNCHANGED inputs

Pick(C, e, g) ==
  /\ Best(C, <<e, g>>)
  /\ res' = Append(res, <<e, g>>)
  /\ availE' = availE \ {e}
  /\ availG' = availG \ {g}

Stage1Pick(e, g) == stage = "s1" /\ Pick(Cand1, e, g) /\ UNCHANGED <<stage, inputs>>

EndStage1 == /\ stage = "s1" /\ Cand1 = {}
             /\ stage' = "s2" /\ UNCHANGED <<availE, availG, res, inputs>>

Stage2Pick(e, g) == stage = "s2" /\ Pick(Cand2, e, g) /\ UNCHANGED <<stage, inputs>>

Finish == /\ stage = "s2" /\ Cand2 = {}
          /\ stage' = "done"
          /\ res' = IF fpval THEN res ELSE res \o Leftovers(availE)
          /\ availE' = {}
          /\ UNCHANGED <<availG, inputs>>

DoStage1 == \E e \in availE, g \in availG : Stage1Pick(e, g)
DoStage2 == \E e \in availE, g \in availG : Stage2Pick(e, g)

Next == Begin \/ DoStage1 \/ EndStage1 \/ DoStage2 \/ Finish

(* ---- C01: one-to-one, valid pairs only, complete ----------------------- *)

Idx == DOMAIN res
Matched == {res[i] : i \in {j \in Idx : res[j][2] # None}}

OneToOne == \A i, j \in Idx : i # j =>
              /\ res[i][1] # res[j][1]
              /\ (res[i][2] # None => res[i][2] # res[j][2])
OnlyValidPairs == \A p \in Matched : valid[p]
NothingInvented == \A i \in Idx : res[i][1] \in E /\ (res[i][2] = None \/ res[i][2] \in G)
Complete == stage = "done" =>
              IF fpval THEN \A i \in Idx : res[i][2] # None
              ELSE {res[i][1] : i \in Idx} = E
\* in fp validation nothing that could still be matched is dropped
FpvalDropsOnlyUnmatchable == (stage = "done" /\ fpval) =>
              \A e \in E \ {res[i][1] : i \in Idx} :
                 \A g \in G \ {p[2] : p \in Matched} : ~valid[<<e, g>>]
InputsUntouched == [][UNCHANGED inputs]_vars

(* ---- C02: compatible first, best first (no blocking pair) -------------- *)

NoBlockingCompat == stage = "done" => \A e \in E, g \in G :
   (valid[<<e, g>>] /\ compat[<<e, g>>] /\ <<e, g>> \notin Matched) =>
      \/ \E p \in Matched : p[1] = e /\ compat[p] /\ Better(score[p], score[<<e, g>>])
      \/ \E p \in Matched : p[2] = g /\ compat[p] /\ Better(score[p], score[<<e, g>>])

NoBlockingIncompat == stage = "done" => \A e \in E, g \in G :
   (valid[<<e, g>>] /\ ~compat[<<e, g>>] /\ <<e, g>> \notin Matched) =>
      \/ \E p \in Matched : p[1] = e /\ (compat[p] \/ Better(score[p], score[<<e, g>>]))
      \/ \E p \in Matched : p[2] = g /\ (compat[p] \/ Better(score[p], score[<<e, g>>]))

\* no stage-2 pick while a valid compatible pair of available objects exists
StageOrder == [][(stage = "s2" /\ stage' = "s2" /\ res' # res) => Cand1 = {}]_vars

\* declarative two-stage greedy (independent of the action system); defined when no two
\* valid scores tie
NoTies == \A p, q \in E \X G : (valid[p] /\ valid[q] /\ p # q) => score[p] # score[q]

RECURSIVE GreedyOn(_, _, _)
GreedyOn(aE, aG, useCompat) ==
  LET C == {p \in aE \X aG : valid[p] /\ (useCompat => compat[p])} IN
  IF C = {} THEN {}
  ELSE LET b == CHOOSE p \in C : \A q \in C : Better(score[p], score[q])
       IN {b} \cup GreedyOn(aE \ {b[1]}, aG \ {b[2]}, useCompat)

Greedy2 ==
  LET m1 == GreedyOn(E, G, TRUE)
      m2 == GreedyOn(E \ {p[1] : p \in m1}, G \ {p[2] : p \in m1}, FALSE)
  IN m1 \cup m2

ExactWhenNoTies == (stage = "done" /\ nE > 0 /\ nG > 0 /\ NoTies) => Matched = Greedy2

\* order-free explanation of a finished matching M (used by the trace specification):
\* M is an outcome of the action system iff it can be consumed by always taking some pair
\* of M that is currently a best candidate of the current stage.
RECURSIVE Explains(_, _, _, _)
Explains(M, aE, aG, st) ==
  LET C1 == {p \in aE \X aG : valid[p] /\ compat[p]}
      C2 == {p \in aE \X aG : valid[p]}
      C  == IF st = 1 THEN C1 ELSE C2
      B  == {p \in M : p \in C /\ \A q \in C : Better(score[p], score[q])}
  IN IF C = {} THEN (IF st = 1 THEN Explains(M, aE, aG, 2) ELSE M = {})
     ELSE /\ B # {}
          /\ LET b == CHOOSE p \in B : TRUE
             IN Explains(M \ {b}, aE \ {b[1]}, aG \ {b[2]}, st)

\* the set of all outcomes (matched sets) of the action system, by recursion over picks
BestSet(C) == {p \in C : \A q \in C : Better(score[p], score[q])}
RECURSIVE Outcomes(_, _, _)
Outcomes(aE, aG, st) ==
  LET C == {p \in aE \X aG : valid[p] /\ (st = 1 => compat[p])} IN
  IF C = {} THEN (IF st = 1 THEN Outcomes(aE, aG, 2) ELSE {{}})
  ELSE UNION {{({b} \cup M) : M \in Outcomes(aE \ {b[1]}, aG \ {b[2]}, st)} : b \in BestSet(C)}

\* lemma binding the trace specification's acceptance predicate to the action system
ExplainsIffOutcome == (stage = "start" /\ nE > 0 /\ nG > 0) =>
   \A M \in SUBSET (E \X G) : Explains(M, E, G, 1) <=> M \in Outcomes(E, G, 1)
ReachedIsOutcome == (stage = "done" /\ nE > 0 /\ nG > 0) => Matched \in Outcomes(E, G, 1)
=============================================================================
