----------------------------- MODULE IdMatching -----------------------------
(***************************************************************************)
(* Identity-based pairing of ROI-less 2-D objects                          *)
(* (object_result.py: _get_object_results_with_id,                         *)
(*  _get_object_results_for_tlr) and the classification scores             *)
(* (classification/accuracy.py, classification_metrics_score.py).          *)
(*                                                                         *)
(* ests, gts : sequences of [uuid, label, cam]; on each side (uuid, cam)   *)
(* is unique.  A result is <<e, g>> (indices; g = 0: no ground truth).     *)
(***************************************************************************)
EXTENDS Integers, Sequences, FiniteSets

TLCam == "cam_traffic_light"

SameId(ests, gts, e, g) == ests[e].uuid = gts[g].uuid /\ ests[e].cam = gts[g].cam
OneToOne(M) == \A p, q \in M : p # q => (p[1] # q[1] /\ p[2] # q[2])
Es(M) == {p[1] : p \in M}
Gs(M) == {p[2] : p \in M}

(* ---- generic objects: paired iff same uuid and same camera -------------- *)
GenericPairs(ests, gts) == {p \in (1..Len(ests)) \X (1..Len(gts)) : SameId(ests, gts, p[1], p[2])}
GenericResults(ests, gts) ==
  LET M == GenericPairs(ests, gts)
      left == (1..Len(ests)) \ Es(M)
  IN IF \E e \in left : ests[e].cam = TLCam THEN M      \* leftovers are dropped when one belongs to the traffic-light camera
     ELSE M \cup {<<e, 0>> : e \in left}

(* ---- traffic lights: equal label (and uuid when uuidFirst) first, then uuid *)
Stage1Compat(ests, gts, uuidFirst, e, g) ==
  /\ ests[e].label = gts[g].label /\ ests[e].cam = gts[g].cam
  /\ (uuidFirst => ests[e].uuid = gts[g].uuid)
Stage1Cands(ests, gts, uuidFirst) == {p \in (1..Len(ests)) \X (1..Len(gts)) : Stage1Compat(ests, gts, uuidFirst, p[1], p[2])}
\* a stage-1 matching leaves no compatible pair of unused objects (every greedy run does)
Stage1Matchings(ests, gts, uuidFirst) ==
  {M \in SUBSET Stage1Cands(ests, gts, uuidFirst) :
      /\ OneToOne(M)
      /\ \A p \in Stage1Cands(ests, gts, uuidFirst) : p[1] \in Es(M) \/ p[2] \in Gs(M)}
Stage2(ests, gts, M) ==
  {p \in ((1..Len(ests)) \ Es(M)) \X ((1..Len(gts)) \ Gs(M)) : SameId(ests, gts, p[1], p[2])}
\* leftovers of either side are dropped for traffic lights
TlrOutcomes(ests, gts, uuidFirst) == {M \cup Stage2(ests, gts, M) : M \in Stage1Matchings(ests, gts, uuidFirst)}

LabelCorrect(ests, gts, r) == r[2] # 0 /\ ests[r[1]].label = gts[r[2]].label
NumCorrect(ests, gts, R) == Cardinality({r \in R : LabelCorrect(ests, gts, r)})

\* number of label-correct pairs the rule allows at most: per (camera, label) class min(#est, #gt)
Min(a, b) == IF a < b THEN a ELSE b
ClassKeys(ests, gts) == {<<ests[e].cam, ests[e].label>> : e \in 1..Len(ests)}
RECURSIVE SumMin(_, _, _)
SumMin(ests, gts, K) ==
  IF K = {} THEN 0
  ELSE LET k == CHOOSE x \in K : TRUE IN
       Min(Cardinality({e \in 1..Len(ests) : <<ests[e].cam, ests[e].label>> = k}),
           Cardinality({g \in 1..Len(gts) : <<gts[g].cam, gts[g].label>> = k})) + SumMin(ests, gts, K \ {k})

(* ---- scores as rationals <<num, den>> ; <<0, 0>> = inf ------------------ *)
Inf == <<0, 0>>
Ratio(a, b) == IF b = 0 THEN Inf ELSE <<a, b>>
Scores(tp, n, G) ==
  [accuracy |-> Ratio(tp, n + G - tp), precision |-> Ratio(tp, n), recall |-> Ratio(tp, G),
   f1 |-> IF n = 0 \/ G = 0 \/ tp = 0 THEN Inf ELSE <<2 * tp, n + G>>]

(* ---- properties (C11) ---------------------------------------------------- *)
Unique(objs) == \A i, j \in 1..Len(objs) : i # j => ~(objs[i].uuid = objs[j].uuid /\ objs[i].cam = objs[j].cam)
SameCamera(ests, gts, R) == \A r \in R : r[2] # 0 => ests[r[1]].cam = gts[r[2]].cam
EachOnce(R) == \A p, q \in R : p # q => (p[1] # q[1] /\ (p[2] # 0 => p[2] # q[2]))
LabelStageMaximal(ests, gts, R) == NumCorrect(ests, gts, R) >= SumMin(ests, gts, ClassKeys(ests, gts))
InUnit(s) == s = Inf \/ (0 <= s[1] /\ s[1] <= s[2])
ScoresInUnit(tp, n, G) == (tp <= n /\ tp <= G) =>
   LET s == Scores(tp, n, G) IN InUnit(s.accuracy) /\ InUnit(s.precision) /\ InUnit(s.recall) /\ InUnit(s.f1)
PerfectIsOne(tp, n, G) == (tp = n /\ tp = G /\ G > 0) =>
   LET s == Scores(tp, n, G) IN s.accuracy[1] = s.accuracy[2] /\ s.precision[1] = s.precision[2] /\ s.recall[1] = s.recall[2] /\ s.f1[1] = s.f1[2]
=============================================================================
