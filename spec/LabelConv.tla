------------------------------ MODULE LabelConv ------------------------------
(***************************************************************************)
(* Label-name conversion (perception_eval/common/label.py: LabelConverter, *)
(* set_target_lists).  Names are byte sequences (TLC strings are atomic);  *)
(* labels are the enum values as strings.                                  *)
(*                                                                         *)
(* DocTable : the documented name tables, a set of records                 *)
(*    [prefix, classif, merge, name (bytes, lower case), label]            *)
(* generated from /verif/harness/tables.py.                                *)
(***************************************************************************)
EXTENDS Integers, Sequences, FiniteSets, Labels

CONSTANT DocTable

Lower(c) == IF c \in 65..90 THEN c + 32 ELSE c
LowerSeq(s) == [i \in DOMAIN s |-> Lower(s[i])]

MergeOf(l) == IF l \in {"truck", "bus"} THEN "car" ELSE IF l = "motorbike" THEN "bicycle" ELSE l

DocRows(ctx, name) == {d \in DocTable : d.prefix = ctx.prefix /\ d.classif = ctx.classif /\ d.merge = ctx.merge /\ d.name = LowerSeq(name)}
Documented(ctx, name) == DocRows(ctx, name) # {}
DocLabel(ctx, name) == (CHOOSE d \in DocRows(ctx, name) : TRUE).label

(* laws of the documented tables themselves (MC_Labels) *)
\* a documented name has one documented label
DocFunctional == \A a, b \in DocTable : (a.prefix = b.prefix /\ a.classif = b.classif /\ a.merge = b.merge /\ a.name = b.name) => a.label = b.label
\* with merging the documented label is the merged image of the documented label without merging
DocMergeImage == \A a \in DocTable : a.merge =>
   \E b \in DocTable : b.prefix = a.prefix /\ b.classif = a.classif /\ ~b.merge /\ b.name = a.name /\ a.label = (IF a.prefix = "autoware" THEN MergeOf(b.label) ELSE b.label)
=============================================================================
