------------------------------ MODULE Heading ------------------------------
(***************************************************************************)
(* Heading comparison (DynamicObject.get_heading_bev / get_heading_error,  *)
(* TPMetricsAph.get_value) on an angle grid Z/M (M even; one unit = 2pi/M).*)
(*   D(a, b)       minimal absolute yaw difference in 0 .. M/2             *)
(*   WeightNum     APH weight numerator:  weight = (M/2 - D) / (M/2)       *)
(*   yaw error     any e in -M/2 .. M/2 with |e| = D (sign: ground truth   *)
(*                 minus estimate, wrapped; at D = M/2 either sign)        *)
(***************************************************************************)
EXTENDS Integers

Abs(x) == IF x < 0 THEN -x ELSE x
Mod(x, m) == ((x % m) + m) % m

D(a, b, M) == LET r == Mod(a - b, M) IN IF r > M \div 2 THEN M - r ELSE r
WeightNum(a, b, M) == (M \div 2) - D(a, b, M)
\* wrapped signed difference b - a in -M/2 .. M/2 (both ends admissible at the antipode)
ErrOK(e, a, b, M) == /\ -(M \div 2) <= e /\ e <= M \div 2
                     /\ Abs(e) = D(a, b, M)
                     /\ (D(a, b, M) \notin {0, M \div 2} => Mod(e, M) = Mod(b - a, M))

(* laws *)
Symmetric(a, b, M) == D(a, b, M) = D(b, a, M)
EqualIsOne(a, M) == WeightNum(a, a, M) = M \div 2
OppositeIsZero(a, M) == WeightNum(a, a + M \div 2, M) = 0
RotationInvariant(a, b, k, M) == D(a + k, b + k, M) = D(a, b, M)
InRange(a, b, M) == 0 <= D(a, b, M) /\ D(a, b, M) <= M \div 2
=============================================================================
