----------------------------- MODULE Transforms -----------------------------
(***************************************************************************)
(* Rigid transforms between named frames (common/transform.py:             *)
(* HomogeneousMatrix.transform / dot / inv, TransformDict, TransformKey)   *)
(* on the exact group  Z^3 x| O_h+  : rotations are the 24 proper signed   *)
(* permutation matrices, translations integer vectors.                     *)
(*   element  [R, t, src, dst]   maps coordinates in src to coordinates in *)
(*   dst:  p |-> R p + t                                                   *)
(***************************************************************************)
EXTENDS Integers, Sequences, FiniteSets

Vec(x, y, z) == <<x, y, z>>
Dot(u, v) == u[1] * v[1] + u[2] * v[2] + u[3] * v[3]
Col(M, j) == <<M[1][j], M[2][j], M[3][j]>>
MulMV(M, v) == <<Dot(M[1], v), Dot(M[2], v), Dot(M[3], v)>>
MulMM(A, B) == [i \in 1..3 |-> [j \in 1..3 |-> Dot(A[i], Col(B, j))]]
Transpose(M) == [i \in 1..3 |-> Col(M, i)]
AddV(u, v) == <<u[1] + v[1], u[2] + v[2], u[3] + v[3]>>
NegV(u) == <<-u[1], -u[2], -u[3]>>
Det(M) == M[1][1] * (M[2][2] * M[3][3] - M[2][3] * M[3][2])
        - M[1][2] * (M[2][1] * M[3][3] - M[2][3] * M[3][1])
        + M[1][3] * (M[2][1] * M[3][2] - M[2][2] * M[3][1])
Id3 == <<<<1, 0, 0>>, <<0, 1, 0>>, <<0, 0, 1>>>>

Unit(k, s) == [j \in 1..3 |-> IF j = k THEN s ELSE 0]
Perms3 == {p \in [1..3 -> 1..3] : p[1] # p[2] /\ p[1] # p[3] /\ p[2] # p[3]}
\* the 24 rotations of the cube
Rots == {M \in {[i \in 1..3 |-> Unit(p[i], s[i])] : p \in Perms3, s \in [1..3 -> {-1, 1}]} : Det(M) = 1}

Apply(A, p) == AddV(MulMV(A.R, p), A.t)
\* pose (position, orientation matrix)
ApplyPose(A, pose) == [p |-> Apply(A, pose.p), R |-> MulMM(A.R, pose.R)]
Composable(A, B) == A.src = B.dst                      \* A after B  (HomogeneousMatrix.dot: self.src = other.dst)
Compose(A, B) == [R |-> MulMM(A.R, B.R), t |-> AddV(MulMV(A.R, B.t), A.t), src |-> B.src, dst |-> A.dst]
Inverse(A) == [R |-> Transpose(A.R), t |-> NegV(MulMV(Transpose(A.R), A.t)), src |-> A.dst, dst |-> A.src]
IsIdentityOn(A) == A.R = Id3 /\ A.t = <<0, 0, 0>>

(* ---- laws (C18) --------------------------------------------------------- *)
InverseRoundTrip(A, pose) == ApplyPose(Inverse(A), ApplyPose(A, pose)) = pose
InverseInvolutive(A) == Inverse(Inverse(A)) = A
InverseLabels(A) == Inverse(A).src = A.dst /\ Inverse(A).dst = A.src
ComposeIsTwoSteps(A, B, p) == Composable(A, B) => Apply(Compose(A, B), p) = Apply(A, Apply(B, p))
ComposeLabels(A, B) == Composable(A, B) => (Compose(A, B).src = B.src /\ Compose(A, B).dst = A.dst)
ComposeWithInverse(A) == IsIdentityOn(Compose(A, Inverse(A))) /\ IsIdentityOn(Compose(Inverse(A), A))
Associative(A, B, C) == (Composable(A, B) /\ Composable(B, C)) => Compose(Compose(A, B), C) = Compose(A, Compose(B, C))

(* ---- transform registry (TransformDict) --------------------------------- *)
\* reg : set of elements, at most one per (src, dst)
Lookup(reg, s, d) == {A \in reg : A.src = s /\ A.dst = d}
\* answer kind of a query s -> d
QueryKind(reg, s, d) ==
  IF s = d THEN "identity"
  ELSE IF Lookup(reg, s, d) # {} THEN "direct"
  ELSE IF Lookup(reg, d, s) # {} THEN "inverse"
  ELSE "keyerror"
QueryElem(reg, s, d) ==
  IF Lookup(reg, s, d) # {} THEN CHOOSE A \in Lookup(reg, s, d) : TRUE
  ELSE Inverse(CHOOSE A \in Lookup(reg, d, s) : TRUE)
QueryPoint(reg, s, d, p) ==
  IF QueryKind(reg, s, d) = "identity" THEN p
  ELSE IF QueryKind(reg, s, d) = "keyerror" THEN <<>>
  ELSE Apply(QueryElem(reg, s, d), p)
Register(reg, A) == (reg \ Lookup(reg, A.src, A.dst)) \cup {A}
=============================================================================
