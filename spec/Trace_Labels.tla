----------------------------- MODULE Trace_Labels -----------------------------
(***************************************************************************)
(* Engine T for C14.  Events (ctx = [prefix, classif, merge]):             *)
(*  Convert : name, registered (0/1: the converter has an entry for it),   *)
(*            label / label_upper / label_title / label_lower / via_name   *)
(*            (convert_label on four case variants and convert_name)       *)
(*  Canonical : label (a label in the range of the converter's table) and  *)
(*            back = the label its own canonical name converts to          *)
(*  Merge   : name, plain, merged  (same name, merge off / on)             *)
(*  Targets : names (list of bytes), resolved, each (converted one by one),*)
(*            all_members ; empty names -> every member                    *)
(***************************************************************************)
EXTENDS LabelConv, TLC, Json, IOUtils
VARIABLES l, nrej
Trace == ndJsonDeserialize(IOEnv.TRACE_FILE)
Ev == Trace[l]
Ctx(ev) == [prefix |-> ev.prefix, classif |-> (ev.classif = 1), merge |-> (ev.merge = 1)]

ConvertVerdict(ev) ==
  IF ev.label = "raised" THEN "conversion-raised"
  ELSE IF ~(ev.label = ev.label_upper /\ ev.label = ev.label_lower /\ ev.label = ev.label_title) THEN "case-sensitive"
  ELSE IF ev.via_name # ev.label THEN "convert_name-disagrees-with-convert_label"
  ELSE IF Documented(Ctx(ev), ev.name) /\ ev.label # DocLabel(Ctx(ev), ev.name) THEN "documented-name-maps-elsewhere"
  ELSE IF ev.registered = 0 /\ ev.label # "unknown" THEN "unregistered-name-not-unknown"
  ELSE "ok"
CanonicalVerdict(ev) == IF ev.back = ev.label THEN "ok" ELSE "label-not-image-of-its-canonical-name"
MergeVerdict(ev) == IF ev.merged = (IF ev.prefix = "autoware" THEN MergeOf(ev.plain) ELSE ev.plain) THEN "ok" ELSE "merge-is-not-merged-image"
TargetsVerdict(ev) ==
  IF Len(ev.names) = 0 THEN (IF ev.resolved = ev.all_members THEN "ok" ELSE "empty-target-list-not-all-members")
  ELSE IF ev.resolved = ev.each THEN "ok" ELSE "target-list-resolved-differently"

Verdict(ev) == IF ev.ev = "Convert" THEN ConvertVerdict(ev)
               ELSE IF ev.ev = "Canonical" THEN CanonicalVerdict(ev)
               ELSE IF ev.ev = "Merge" THEN MergeVerdict(ev)
               ELSE IF ev.ev = "Targets" THEN TargetsVerdict(ev)
               ELSE "unknown-event"
TraceInit == l = 1 /\ nrej = 0
TraceNext == /\ l <= Len(Trace) /\ l' = l + 1
             /\ IF Verdict(Ev) = "ok" THEN UNCHANGED nrej
                ELSE PrintT(<<"REJECT", Ev.tid, l, Verdict(Ev)>>) /\ nrej' = nrej + 1
Consumed == TLCGet("stats").diameter - 1 = Len(Trace)
=============================================================================
