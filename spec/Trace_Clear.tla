----------------------------- MODULE Trace_Clear -----------------------------
(***************************************************************************)
(* Engine T for C05: histories run through the real CLEAR /                *)
(* TrackingMetricsScore (and, via the manager driver, through              *)
(* PerceptionEvaluationManager in tracking mode), validated against        *)
(* Clear.tla.  Events per history:                                         *)
(*   Begin : label, policy, thr4, maximize, g   (scores in 1e-4 units)     *)
(*   Frame : res = list of [e, el, g, gl, s4]   (g = 0 / gl = "none" when  *)
(*           the result has no ground truth); the first Frame is the       *)
(*           initial "previous" frame                                      *)
(*   End   : tp, fp, idsw, n, sum4, mota6, motp4 (-1 = inf)                *)
(*   Sum   : per-label clears and the totals of _sum_clear()               *)
(* Each Frame event is one step of Clear!Frame; End compares the           *)
(* specification's counters with the library's and checks the formulas.    *)
(***************************************************************************)
EXTENDS Clear, TLC, Json, IOUtils

VARIABLES l, nrej, live

Trace == ndJsonDeserialize(IOEnv.TRACE_FILE)
Ev == Trace[l]
Abs(x) == IF x < 0 THEN -x ELSE x

ToFrame(ev) == {[e |-> ev.res[i].e, el |-> ev.res[i].el, g |-> ev.res[i].g, gl |-> ev.res[i].gl, sc |-> ev.res[i].s4] : i \in 1..Len(ev.res)}

TraceInit == /\ l = 1 /\ nrej = 0 /\ live = 0 /\ Init0 /\ prev = {}
             /\ cfg = [label |-> "none", policy |-> "DEFAULT", thr |-> 0, maximize |-> FALSE, g |-> 0]

FrameVerdict(ev) ==
  LET f == ToFrame(ev) IN
  IF Cardinality(f) # Len(ev.res) THEN "driver:duplicate-result"
  ELSE IF ~WellFormedFrame(f) THEN "driver:ids-not-unique"
  ELSE "ok"

EndVerdict(ev) ==
  LET G == cfg.g  m == Mota(G)  w == BagWeight(tpBy) IN
  IF ev.tp # tp THEN "tp"
  ELSE IF ev.fp # fp THEN "fp"
  ELSE IF ev.idsw # idsw THEN "id_switch"
  ELSE IF ev.n # nres THEN "predict_num"
  ELSE IF Abs(ev.sum4 - w) > tp + 1 THEN "tp_matching_score"
  ELSE IF (m = Inf) # (ev.mota6 = -1) THEN "mota-undefined"
  ELSE IF m # Inf /\ Abs(ev.mota6 * m[2] - 1000000 * m[1]) > m[2] THEN "mota-formula"
  ELSE IF (tp = 0) # (ev.motp4 = -1) THEN "motp-undefined"
  ELSE IF tp > 0 /\ Abs(ev.motp4 * tp - w) > 2 * tp + 1 THEN "motp-formula"
  ELSE IF tp + fp > nres \/ idsw > tp THEN "accounting"
  ELSE "ok"

\* TrackingMetricsScore._sum_clear(): ground-truth weighted MOTA, TP weighted MOTP, summed switches
Field(c, k) ==
  IF k = "g" THEN c.g
  ELSE IF k = "tp" THEN c.tp
  ELSE IF k = "idsw" THEN c.idsw
  ELSE IF k = "motaw" THEN (IF c.mota6 = -1 THEN 0 ELSE c.mota6 * c.g)
  ELSE (IF c.motp4 = -1 THEN 0 ELSE c.motp4 * c.tp)
RECURSIVE SumF(_, _, _)
SumF(cl, i, k) == IF i = 0 THEN 0 ELSE SumF(cl, i - 1, k) + Field(cl[i], k)
SumVerdict(ev) ==
  LET cl == ev.clears  n == Len(cl)
      sg == SumF(cl, n, "g")  st == SumF(cl, n, "tp")
  IN
  IF ev.idsw # SumF(cl, n, "idsw") THEN "sum-id-switch"
  ELSE IF (sg = 0) # (ev.mota6 = -1) THEN "sum-mota-undefined"
  ELSE IF sg > 0 /\ Abs(ev.mota6 * sg - SumF(cl, n, "motaw")) > sg + n THEN "sum-mota"
  ELSE IF (st = 0) # (ev.motp4 = -1) THEN "sum-motp-undefined"
  ELSE IF st > 0 /\ Abs(ev.motp4 * st - SumF(cl, n, "motpw")) > st + n THEN "sum-motp"
  ELSE "ok"

Reject(why) == PrintT(<<"REJECT", Ev.tid, l, why>>) /\ nrej' = nrej + 1 /\ live' = 0

TraceNext ==
  /\ l <= Len(Trace)
  /\ l' = l + 1
  /\ IF Ev.ev = "Begin" THEN
        /\ cfg' = [label |-> Ev.label, policy |-> Ev.policy, thr |-> Ev.thr4, maximize |-> (Ev.maximize = 1), g |-> Ev.g]
        /\ tp' = 0 /\ fp' = 0 /\ idsw' = 0 /\ nres' = 0 /\ nframes' = 0 /\ tpBy' = EmptyBag /\ prev' = {}
        /\ live' = Ev.tid /\ UNCHANGED nrej
     ELSE IF Ev.ev = "Sum" THEN
        IF SumVerdict(Ev) = "ok" THEN UNCHANGED <<cvars, nrej, live>> ELSE Reject(SumVerdict(Ev)) /\ UNCHANGED cvars
     ELSE IF live # Ev.tid THEN UNCHANGED <<cvars, nrej, live>>          \* rest of a rejected history
     ELSE IF Ev.ev = "Frame" THEN
        IF FrameVerdict(Ev) # "ok" THEN Reject(FrameVerdict(Ev)) /\ UNCHANGED cvars
        ELSE (IF nframes = 0 THEN First(ToFrame(Ev)) ELSE Frame(ToFrame(Ev))) /\ UNCHANGED <<nrej, live>>
     ELSE IF Ev.ev = "End" THEN
        IF EndVerdict(Ev) = "ok" THEN UNCHANGED <<cvars, nrej, live>> ELSE Reject(EndVerdict(Ev)) /\ UNCHANGED cvars
     ELSE Reject("unknown-event") /\ UNCHANGED cvars

\* invariants evaluated along every validated history
TAccounting == tp + fp <= nres /\ idsw <= tp /\ BagSize(tpBy) = tp

Consumed == TLCGet("stats").diameter - 1 = Len(Trace)
=============================================================================
