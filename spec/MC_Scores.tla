----------------------------- MODULE MC_Scores -----------------------------
(* Engines M and R for C06: pairs of lattice boxes / ROIs with their exact   *)
(* scores.  `rot` and `shift` select the common rigid motion under which the *)
(* pair is rendered for the real code (scores must not depend on them).      *)
EXTENDS Lattice, TLC, Randomization
CONSTANTS CX, CY, CZ, SW, SL, SH, RoiPos, RoiSize, Sample
VARIABLES kind, a, b, phase, out

BoxSpace == [c : CX \X CY \X CZ, s : SW \X SL \X SH, q : 0..3]
RoiSpace == RoiPos \X RoiPos \X RoiSize \X RoiSize
Pick(S) == IF Sample = 0 THEN S ELSE RandomSubset(Sample, S)
\* boxes closely related to x: itself, turned, shrunk / grown about the same centre (nested), shifted by one
Related(x) == {x} \cup {[x EXCEPT !.q = (x.q + k) % 4] : k \in 1..3}
                  \cup {[x EXCEPT !.s = sz] : sz \in SW \X SL \X SH}
                  \cup {[x EXCEPT !.c = <<x.c[1] + d[1], x.c[2] + d[2], x.c[3]>>] : d \in {<<1, 0>>, <<0, 1>>, <<1, 1>>, <<-1, 0>>}}

Init == /\ phase = "input" /\ out = <<>>
        /\ \/ kind = "box" /\ a \in Pick(BoxSpace) /\ b \in Pick(BoxSpace) \cup Related(a)
           \/ kind = "roi" /\ a \in RoiSpace /\ b \in RoiSpace
Next == /\ phase = "input" /\ phase' = "done"
        /\ out' = IF kind = "box"
                  THEN [iou2 |-> IoU2(a, b), iou3 |-> IoU3(a, b), cd |-> CDist2x4(a, b), plane |-> PlaneAdm(a, b),
                        areaA |-> Area4(a), volA |-> Vol8(a), cornersA |-> [k \in 1..4 |-> Corner(a, k)]]
                  ELSE [iou2 |-> RoiIoU(a, b), cd |-> RoiDist2(a, b)]
        /\ UNCHANGED <<kind, a, b>>

LawBounds == kind = "box" => Bounds(a, b)
LawSymmetry == kind = "box" => Symmetry(a, b)
LawIdentical == kind = "box" => IdenticalIsOne(a, b)
LawDisjoint == kind = "box" => DisjointIsZero(a, b)
Law3DvsBev == kind = "box" => ThreeDNotAboveBev(a, b)
LawPlane == kind = "box" => (PlaneNonNegative(a, b) /\ PlaneZeroWhenIdentical(a) /\ PlaneAdm(a, b) # {})
LawRoi == kind = "roi" => (InUnit(RoiIoU(a, b)) /\ RoiIoU(a, b) = RoiIoU(b, a) /\ RoiDist2(a, b) = RoiDist2(b, a)
                           /\ (a = b => RoiIoU(a, b)[1] = RoiIoU(a, b)[2]))
=============================================================================
