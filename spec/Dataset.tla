------------------------------ MODULE Dataset ------------------------------
(***************************************************************************)
(* Loading a T4 / nuScenes-format dataset (common/dataset.py               *)
(* load_all_datasets, common/dataset_utils.py _sample_to_frame,            *)
(* _convert_nuscenes_box_to_dynamic_object, _get_transforms,               *)
(* _get_tracking_data).                                                    *)
(*                                                                         *)
(* ds = [samples : Seq([time, ego : [x, y, q]]),                           *)
(*       cats    : function instance -> category name,                     *)
(*       anns    : set of [sample, inst, x, y, z, a, size, pts, vis, attr]]*)
(* Poses are lattice poses: integer positions, yaw a on the 15-degree grid *)
(* Z/24, ego yaw q in quarter turns (so the ego-relative pose is exact).   *)
(* Times are in units of half a second.                                    *)
(***************************************************************************)
EXTENDS Integers, Sequences, FiniteSets

Mod(x, m) == ((x % m) + m) % m

\* documented category -> label (a small extract of LabelConv's table) ; merge: truck, bus -> car
ConvertCat(c, merge) ==
  IF c = "car" THEN "car"
  ELSE IF c = "pedestrian.adult" THEN "pedestrian"
  ELSE IF c = "bus" THEN (IF merge THEN "car" ELSE "bus")
  ELSE IF c = "movable_object.barrier" THEN "unknown"
  ELSE "unknown"                                        \* unregistered category names

\* rotation by -q quarter turns
RotInv(q, v) == IF Mod(q, 4) = 0 THEN v
                ELSE IF Mod(q, 4) = 1 THEN <<v[2], -v[1]>>
                ELSE IF Mod(q, 4) = 2 THEN <<-v[1], -v[2]>>
                ELSE <<-v[2], v[1]>>
Rot(q, v) == RotInv(4 - Mod(q, 4), v)

\* pose of an annotation in the requested frame
PoseIn(an, ego, frameId) ==
  IF frameId = "map" THEN [x |-> an.x, y |-> an.y, z |-> an.z, a |-> Mod(an.a, 24)]
  ELSE LET r == RotInv(ego.q, <<an.x - ego.x, an.y - ego.y>>) IN
       [x |-> r[1], y |-> r[2], z |-> an.z, a |-> Mod(an.a - 6 * ego.q, 24)]

\* the ego-to-map transform stored with the frame maps the ego-frame pose onto the map-frame pose
EgoToMap(ego, p) == LET r == Rot(ego.q, <<p.x, p.y>>) IN [x |-> r[1] + ego.x, y |-> r[2] + ego.y, z |-> p.z, a |-> Mod(p.a + 6 * ego.q, 24)]

\* poses the same instance had in the preceding samples, most recent first, within the 3 s look-back (+0.15 s buffer:
\* time units are 0.5 s, so at most 6 units back) and at most 6 of them
RECURSIVE PastFrom(_, _, _, _)
PastFrom(ds, inst, k, j) ==
  IF j = 0 THEN <<>>
  ELSE LET here == {an \in ds.anns : an.sample = j /\ an.inst = inst} IN
       (IF here # {} /\ ds.samples[k].time - ds.samples[j].time <= 6
        THEN LET an == CHOOSE x \in here : TRUE IN <<<<an.x, an.y, an.z>>>> ELSE <<>>) \o PastFrom(ds, inst, k, j - 1)
Past(ds, inst, k) == LET p == PastFrom(ds, inst, k, k - 1) IN IF Len(p) > 6 THEN SubSeq(p, 1, 6) ELSE p

ObjectOf(ds, an, frameId, task, merge) ==
  [uuid |-> an.inst, label |-> ConvertCat(ds.cats[an.inst], merge), attr |-> an.attr, size |-> an.size, pts |-> an.pts, vis |-> an.vis,
   pose |-> PoseIn(an, ds.samples[an.sample].ego, frameId),
   past |-> IF task = "tracking" THEN Past(ds, an.inst, an.sample) ELSE <<>>]

Load(ds, frameId, task, merge) ==
  [k \in 1..Len(ds.samples) |->
     [time |-> ds.samples[k].time, name |-> k - 1, ego |-> ds.samples[k].ego,
      objects |-> {ObjectOf(ds, an, frameId, task, merge) : an \in {x \in ds.anns : x.sample = k}}]]

(* ---- properties (C16) ---------------------------------------------------- *)
OneFramePerSample(ds, frames) == Len(frames) = Len(ds.samples) /\ \A k \in 1..Len(frames) : frames[k].time = ds.samples[k].time /\ frames[k].name = k - 1
OneObjectPerAnnotation(ds, frames) == \A k \in 1..Len(frames) : Cardinality(frames[k].objects) = Cardinality({x \in ds.anns : x.sample = k})
EgoMapConsistent(ds, merge) ==
  LET fe == Load(ds, "base_link", "detection", merge)  fm == Load(ds, "map", "detection", merge) IN
  \A k \in 1..Len(fe) : \A oe \in fe[k].objects : \E om \in fm[k].objects : om.uuid = oe.uuid /\ EgoToMap(ds.samples[k].ego, oe.pose) = om.pose
=============================================================================
