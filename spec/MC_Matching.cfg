CONSTANTS
  None = None
  MaxE = 2
  MaxG = 2
  K = 2
INIT Init
NEXT Next
INVARIANT OneToOne
INVARIANT OnlyValidPairs
INVARIANT NothingInvented
INVARIANT Complete
INVARIANT FpvalDropsOnlyUnmatchable
INVARIANT NoBlockingCompat
INVARIANT NoBlockingIncompat
INVARIANT ExactWhenNoTies
INVARIANT ExplainsIffOutcome
INVARIANT ReachedIsOutcome
PROPERTY InputsUntouched
PROPERTY StageOrder
