------------------------------ MODULE MC_Config ------------------------------
(* Engines M and R for C15: every threshold tree up to a bound with its      *)
(* normalisation, and every abstract configuration with its verdict.         *)
EXTENDS Thresholds, Config, TLC
CONSTANTS MaxLen, Ns, TaskSet

VARIABLES kind, tree, n, nest, cfgc, out, phase

Leaf == {<<"num", 1>>, <<"num", 2>>, <<"bad">>}
RECURSIVE SeqsOf(_, _)
SeqsOf(S, k) == IF k = 0 THEN {<<>>} ELSE SeqsOf(S, k - 1) \cup [1..k -> S]
Rows == {<<"list", it>> : it \in SeqsOf(Leaf, MaxLen)}
Trees == Leaf \cup Rows \cup {<<"list", it>> : it \in SeqsOf(Leaf \cup Rows, MaxLen)}

CfgSpace == [mgr : {"perception", "sensing"}, task : TaskSet, x : BOOLEAN, y : BOOLEAN, dmax : BOOLEAN, dmin : BOOLEAN,
             minPts : BOOLEAN, unknownKey : BOOLEAN, nFrameIds : 1..2, thr : {"ok", "bad"}, n : {2},
             aux : {"min_point_numbers", "confidence_threshold", "max_matchable_radii", "max_x_position"},
             auxShape : {"list", "scalar", "zero", "singleton", "empty", "short"},
             prefix : {"ok", "missing", "corrupt"}]
\* the aux and prefix dimensions only vary on otherwise plain configurations (keeps the product small)
Plain(c) == c.task \in {"detection", "tracking"} /\ c.mgr = "perception" /\ c.x /\ c.y /\ ~c.dmax /\ ~c.dmin /\ c.minPts /\ ~c.unknownKey /\ c.nFrameIds = 1 /\ c.thr = "ok"
PlainSensing(c) == c.task = "sensing" /\ c.mgr = "sensing" /\ ~c.x /\ ~c.y /\ ~c.dmax /\ ~c.dmin /\ ~c.minPts /\ ~c.unknownKey /\ c.nFrameIds = 1 /\ c.thr = "ok"
AuxOk(c) == /\ ((c.auxShape = "list" /\ c.aux = "min_point_numbers") \/ Plain(c))
            /\ (c.prefix = "ok" \/ ((Plain(c) \/ PlainSensing(c)) /\ c.auxShape = "list" /\ c.aux = "min_point_numbers"))
\* partial kinds: one complete kind plus one list of the other (xy+dmax, ring+x), or a single list (x-only, dmax-only) - never accepted for 3-D
FrameSpace == [kind : {"xy", "ring", "both", "none"}, lenDelta : -1..1, is2d : BOOLEAN]
                \cup [kind : {"xy+dmax", "ring+x", "x-only", "dmax-only"}, lenDelta : {0}, is2d : {FALSE}]

NoTree == <<"num", 0>>
Init ==
  /\ phase = "input" /\ out = <<>>
  /\ \/ kind = "thr" /\ tree \in Trees /\ n \in Ns /\ nest \in BOOLEAN /\ cfgc = <<>>
     \/ kind = "cfg" /\ cfgc \in {c \in CfgSpace : AuxOk(c)} /\ tree = NoTree /\ n = 0 /\ nest = FALSE
     \/ kind = "frame" /\ cfgc \in FrameSpace /\ tree = NoTree /\ n = 0 /\ nest = FALSE
Eval == /\ phase = "input" /\ phase' = "done"
        /\ out' = IF kind = "thr" THEN Normalize(tree, n, nest)
                  ELSE IF kind = "cfg" THEN <<Accept(cfgc)>>
                  ELSE <<AcceptCritical(cfgc), AcceptPassFail(cfgc)>>
        /\ UNCHANGED <<kind, tree, n, nest, cfgc>>
Next == Eval

InvShape == kind = "thr" => Shape(tree, n, nest)
InvIdempotent == kind = "thr" => Idempotent(tree, n, nest)
InvNoPad == kind = "thr" => NoPadNoTruncate(tree, n, nest)
InvRejects == kind = "thr" => RejectsNonNumeric(tree, n, nest)
=============================================================================
