INIT TraceInit
NEXT TraceNext
INVARIANT TAccounting
POSTCONDITION Consumed
CHECK_DEADLOCK FALSE
