----------------------------- MODULE Thresholds -----------------------------
(***************************************************************************)
(* Threshold normalisation (perception_eval/common/threshold.py:           *)
(* set_thresholds, check_thresholds, check_nested_thresholds).             *)
(*                                                                         *)
(* A threshold specification is a tagged tree:                             *)
(*   <<"num", v>>            a real number                                 *)
(*   <<"bad">>               a non-numeric leaf (string, None, dict ...)   *)
(*   <<"list", items>>       a list whose items are trees                  *)
(* Normalize(v, n, nest) = <<"ok", value>> or <<"err">> where value is a   *)
(* sequence of n numbers (flat mode) or a sequence of rows of n numbers    *)
(* (nested mode).  Written from the documentation: scalars and singletons  *)
(* broadcast; a flat numeric list in nested mode is one row when its       *)
(* length is n and otherwise one broadcast row per element; anything       *)
(* malformed or non-numeric is an error -- never padded or truncated.      *)
(***************************************************************************)
EXTENDS Integers, Sequences, FiniteSets

IsNum(t) == t[1] = "num"
IsList(t) == t[1] = "list"
Items(t) == t[2]
Val(t) == t[2]

Rep(v, n) == [i \in 1..n |-> v]
AllNum(items) == \A i \in 1..Len(items) : IsNum(items[i])
Vals(items) == [i \in 1..Len(items) |-> Val(items[i])]

Err == <<"err">>
Ok(v) == <<"ok", v>>

NormFlat(t, n) ==
  IF IsNum(t) THEN Ok(Rep(Val(t), n))
  ELSE IF ~IsList(t) THEN Err
  ELSE LET it == Items(t) IN
       IF Len(it) = 0 \/ ~AllNum(it) THEN Err
       ELSE IF Len(it) = 1 THEN Ok(Rep(Val(it[1]), n))
       ELSE IF Len(it) = n THEN Ok(Vals(it))
       ELSE Err

\* one row of a nested specification
NormRow(r, n) ==
  IF ~IsList(r) THEN Err
  ELSE LET it == Items(r) IN
       IF Len(it) = 0 \/ ~AllNum(it) THEN Err
       ELSE IF Len(it) = 1 THEN Ok(Rep(Val(it[1]), n))
       ELSE IF Len(it) = n THEN Ok(Vals(it))
       ELSE Err

NormNested(t, n) ==
  IF IsNum(t) THEN Ok(<<Rep(Val(t), n)>>)
  ELSE IF ~IsList(t) THEN Err
  ELSE LET it == Items(t) IN
       IF Len(it) = 0 THEN Err
       ELSE IF IsNum(it[1]) THEN
            (IF ~AllNum(it) THEN Err
             ELSE IF Len(it) = n THEN Ok(<<Vals(it)>>)
             ELSE Ok([i \in 1..Len(it) |-> Rep(Val(it[i]), n)]))
       ELSE IF \E i \in 1..Len(it) : NormRow(it[i], n) = Err THEN Err
       ELSE Ok([i \in 1..Len(it) |-> NormRow(it[i], n)[2]])

Normalize(t, n, nest) == IF nest THEN NormNested(t, n) ELSE NormFlat(t, n)

\* a normalised value as a tree again
FlatTree(v) == <<"list", [i \in 1..Len(v) |-> <<"num", v[i]>>]>>
NestedTree(v) == <<"list", [i \in 1..Len(v) |-> FlatTree(v[i])]>>
AsTree(v, nest) == IF nest THEN NestedTree(v) ELSE FlatTree(v)

(* ---- properties (C15) --------------------------------------------------- *)
Shape(t, n, nest) ==
  LET r == Normalize(t, n, nest) IN
  r # Err => IF nest THEN (Len(r[2]) >= 1 /\ \A i \in 1..Len(r[2]) : Len(r[2][i]) = n) ELSE Len(r[2]) = n
Idempotent(t, n, nest) ==
  LET r == Normalize(t, n, nest) IN r # Err => Normalize(AsTree(r[2], nest), n, nest) = r
\* every output row is an input row of length n or a broadcast single value
RECURSIVE Leaves(_)
Leaves(t) == IF IsNum(t) THEN {Val(t)} ELSE IF IsList(t) THEN UNION {Leaves(Items(t)[i]) : i \in 1..Len(Items(t))} ELSE {}
NoPadNoTruncate(t, n, nest) ==
  LET r == Normalize(t, n, nest) IN
  r # Err => IF nest THEN \A i \in 1..Len(r[2]) : \A j \in 1..n : r[2][i][j] \in Leaves(t)
             ELSE \A j \in 1..n : r[2][j] \in Leaves(t)
RECURSIVE HasBad(_)
HasBad(t) == IF IsNum(t) THEN FALSE ELSE IF IsList(t) THEN \E i \in 1..Len(Items(t)) : HasBad(Items(t)[i]) ELSE TRUE
RejectsNonNumeric(t, n, nest) == HasBad(t) => Normalize(t, n, nest) = Err
=============================================================================
