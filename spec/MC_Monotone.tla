----------------------------- MODULE MC_Monotone -----------------------------
(***************************************************************************)
(* Engines M and R for C08: loosening a matching threshold.                *)
(* A ranked result is  <<lvl, w>> : a pair with an ordinary ground truth   *)
(* whose score beats rung j of the threshold ladder iff lvl <= j (lvl =    *)
(* Rungs + 1: beats no rung), with heading weight w/W;  or FPe (no ground  *)
(* truth) ;  or IGe (ignored).  For every rung the ranking of Ap.tla is    *)
(* derived; TP sets must grow and AP / APH must not decrease along the     *)
(* ladder.  `out` stores AP / APH per rung for the replay.                 *)
(***************************************************************************)
EXTENDS Ap, TLC
CONSTANTS Rungs, MaxG
VARIABLES r, g, phase, out

\* a pair <<lvl, w>> is encoded as the integer 10 * lvl + w (TLC cannot compare tuples with the integers FPe / IGe)
Pairs == {10 * lvl + w : lvl \in 1..(Rungs + 1), w \in 0..W}
Items == Pairs \cup {FPe, IGe}
RECURSIVE SeqsUpTo(_)
SeqsUpTo(n) == IF n = 0 THEN {<<>>} ELSE SeqsUpTo(n - 1) \cup [1..n -> Items]

KindAt(x, j) == IF x < 0 THEN x ELSE IF x \div 10 <= j THEN x % 10 ELSE FPe
RankingAt(s, j) == [i \in 1..Len(s) |-> KindAt(s[i], j)]
TpSetAt(s, j) == {i \in 1..Len(s) : IsTP(KindAt(s[i], j))}

Init == r \in SeqsUpTo(N) /\ g \in 0..MaxG /\ phase = "input" /\ out = <<>>
Next == /\ phase = "input" /\ phase' = "done"
        /\ out' = [j \in 1..Rungs |-> [ap |-> OpAP(RankingAt(r, j), g, FALSE), aph |-> OpAP(RankingAt(r, j), g, TRUE),
                                        ntp |-> Cardinality(TpSetAt(r, j)), unit |-> Unit(g)]]
        /\ UNCHANGED <<r, g>>

TpNeverLost == \A j \in 1..(Rungs - 1) : TpSetAt(r, j) \subseteq TpSetAt(r, j + 1)
ApMonotone == \A j \in 1..(Rungs - 1) :
   /\ OpAP(RankingAt(r, j), g, FALSE) <= OpAP(RankingAt(r, j + 1), g, FALSE)
   /\ OpAP(RankingAt(r, j), g, TRUE) <= OpAP(RankingAt(r, j + 1), g, TRUE)
=============================================================================
