------------------------------ MODULE Analyzer ------------------------------
(***************************************************************************)
(* Tabulation of frame results (tool/perception_analyzer_base.py add /     *)
(* add_frame / format2df, get_num_*, calculate_error, get_confusion_matrix;*)
(* tool/perception_analyzer3d.py format2dict; result/perception_frame_     *)
(* result.py get_object_status).                                           *)
(*                                                                         *)
(* A frame-result record has  tp, fp : sets of <<e, g>> (g = 0: no ground  *)
(* truth), fn, tn : sets of ground-truth ids, g2 : the critical ground     *)
(* truths, ests / gts : the object records (ego-relative x, y, label).     *)
(* The table holds one (ground truth, estimate) row pair per TP, per FP    *)
(* (ground-truth side filled iff the FP has a ground truth), per TN and    *)
(* per FN item.                                                            *)
(***************************************************************************)
EXTENDS Integers, Sequences, FiniteSets

SeqSet(s) == {s[i] : i \in 1..Len(s)}

\* row pairs of one frame: [status, e, g]
RowsOf(fr) == {[status |-> "TP", e |-> r[1], g |-> r[2]] : r \in fr.tp}
         \cup {[status |-> "FP", e |-> r[1], g |-> r[2]] : r \in fr.fp}
         \cup {[status |-> "TN", e |-> 0, g |-> g] : g \in fr.tn}
         \cup {[status |-> "FN", e |-> 0, g |-> g] : g \in fr.fn}

EstRows(fr) == {r \in RowsOf(fr) : r.e # 0}
GtRows(fr) == {r \in RowsOf(fr) : r.g # 0}
PairedRows(fr) == {r \in RowsOf(fr) : r.e # 0 /\ r.g # 0}
Count(fr, st, side) == Cardinality({r \in (IF side = "est" THEN EstRows(fr) ELSE GtRows(fr)) : r.status = st})

\* ground truths that the table lists twice: matched by a failing estimate (FP pair) AND listed as FN
DupGts(fr) == {r[2] : r \in {x \in fr.fp : x[2] # 0}} \cap fr.fn

NEst(fr) == Cardinality(EstRows(fr))
NGtRows(fr) == Cardinality(GtRows(fr))
NPaired(fr) == Cardinality(PairedRows(fr))
Measure(fr, k) ==
  IF k = "est" THEN NEst(fr) ELSE IF k = "gtrows" THEN NGtRows(fr) ELSE IF k = "critical" THEN Len(fr.g2)
  ELSE IF k = "dup" THEN Cardinality(DupGts(fr)) ELSE IF k = "tp" THEN Cardinality(fr.tp) ELSE IF k = "fp" THEN Cardinality(fr.fp)
  ELSE IF k = "tn" THEN Cardinality(fr.tn) ELSE IF k = "fn" THEN Cardinality(fr.fn) ELSE NPaired(fr)
RECURSIVE SumM(_, _, _)
SumM(frs, n, k) == IF n <= 0 THEN 0 ELSE SumM(frs, n - 1, k) + Measure(frs[n], k)
Tot(frs, k) == SumM(frs, Len(frs), k)

\* position errors (ground truth minus estimate) of the paired rows, as a bag  <<dx, dy>> -> count
ErrOf(fr, r) == <<fr.gts[r.g].x - fr.ests[r.e].x, fr.gts[r.g].y - fr.ests[r.e].y>>
ErrKeys(fr) == {ErrOf(fr, r) : r \in PairedRows(fr)}
ErrBag(fr) == [k \in ErrKeys(fr) |-> Cardinality({r \in PairedRows(fr) : ErrOf(fr, r) = k})]
\* confusion counts  <<gt label, est label>> -> count  over the paired rows
ConfKeys(fr) == {<<fr.gts[r.g].label, fr.ests[r.e].label>> : r \in PairedRows(fr)}
ConfBag(fr) == [k \in ConfKeys(fr) |-> Cardinality({r \in PairedRows(fr) : <<fr.gts[r.g].label, fr.ests[r.e].label>> = k})]

Table(frs) ==
  [numEst |-> Tot(frs, "est"), numGtRows |-> Tot(frs, "gtrows"), numCritical |-> Tot(frs, "critical"), dup |-> Tot(frs, "dup"),
   tp |-> Tot(frs, "tp"), fp |-> Tot(frs, "fp"), tn |-> Tot(frs, "tn"), fn |-> Tot(frs, "fn"), paired |-> Tot(frs, "paired"),
   errs |-> [n \in 1..Len(frs) |-> ErrBag(frs[n])], conf |-> [n \in 1..Len(frs) |-> ConfBag(frs[n])]]

(* ---- properties (C19) ---------------------------------------------------- *)
\* per-status counts equal the sizes of the pass/fail lists; estimate count = evaluated estimates
StatusCounts(fr) == /\ Count(fr, "TP", "est") = Cardinality(fr.tp) /\ Count(fr, "FP", "est") = Cardinality(fr.fp)
                    /\ Count(fr, "TN", "gt") = Cardinality(fr.tn) /\ Count(fr, "FN", "gt") = Cardinality(fr.fn)
                    /\ Cardinality(EstRows(fr)) = Cardinality(fr.tp) + Cardinality(fr.fp)
\* every ground-truth row belongs to a critical ground truth; the ground-truth rows cover the critical ground truths
GtRowsAreCritical(fr) == {r.g : r \in GtRows(fr)} = SeqSet(fr.g2)
\* the statement: ground-truth count = number of critical ground truths.  As built this fails exactly by the ground truths
\* matched by a failing estimate, which appear in an FP pair and again as FN:
GtCountAsBuilt(fr) == Cardinality(GtRows(fr)) = Len(fr.g2) + Cardinality(DupGts(fr))
GtCountStrict(fr) == Cardinality(GtRows(fr)) = Len(fr.g2)
=============================================================================
