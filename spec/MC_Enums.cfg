INIT Init
NEXT Next
INVARIANT LawRoundTrip
INVARIANT LawCase
INVARIANT LawReject
CHECK_DEADLOCK FALSE
