CONSTANTS
  None = None
INIT TraceInit
NEXT TraceNext
INVARIANT TOneToOne
INVARIANT TOnlyValid
INVARIANT TComplete
INVARIANT TNoBlockingCompat
INVARIANT TNoBlockingIncompat
INVARIANT TExact
INVARIANT TFpval
POSTCONDITION Consumed
CHECK_DEADLOCK FALSE
