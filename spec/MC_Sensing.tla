------------------------------ MODULE MC_Sensing ------------------------------
(***************************************************************************)
(* Engines M and R for C12.  kind = "box": one box, one scale, the cloud = *)
(* every lattice point of a block -> inside / boundary index sets.         *)
(* kind = "frame": objects (box + visibility), distance-dependent scale,   *)
(* minimum point threshold, non-detection prisms -> per-object inside /    *)
(* boundary counts and admissible classification, per-area failure points. *)
(***************************************************************************)
EXTENDS Sensing, TLC, Randomization
CONSTANTS PX, PY, PZ, Centres, Sizes, Dirs, Scales, Areas, VisSet, T0T1, MinPtsSet, MaxObjs, Sample, FarDists

VARIABLES kind, box, scale, objs, cfg, areas, phase, out

Cloud == PX \X PY \X PZ
BoxSpace == [c : Centres, s : Sizes, dir : Dirs]
ObjSpace == [box : BoxSpace, vis : VisSet]
CfgSpace == [t : T0T1, minPts : MinPtsSet]
NoBox == [c |-> <<0, 0, 0>>, s |-> <<1, 1, 1>>, dir |-> <<5, 0>>]

\* integer distance of a centre (centres are chosen with integer norm)
RECURSIVE ISqrt(_, _)
ISqrt(n, k) == IF k * k >= n THEN k ELSE ISqrt(n, k + 1)
Dist(c) == ISqrt(c[1] * c[1] + c[2] * c[2] + c[3] * c[3], 0)
ObjScale(o, g) == ScaleAt(g.t[1], g.t[2], Dist(o.box.c))

Init ==
  /\ phase = "input" /\ out = <<>>
  /\ \/ kind = "box" /\ box \in BoxSpace /\ scale \in Scales /\ objs = <<>> /\ cfg = <<>> /\ areas = <<>>
     \* the distance-dependent scale itself, also beyond 100 m (scale = <<distance, 1>>)
     \/ kind = "scale" /\ box = NoBox /\ scale \in {<<d, 1>> : d \in FarDists} /\ objs = <<>> /\ areas = <<>> /\ cfg \in [t : T0T1, minPts : {0}]
     \/ kind = "frame" /\ box = NoBox /\ scale = <<1, 1>>
        /\ objs \in UNION {RandomSubset(Sample, [1..n -> ObjSpace]) : n \in 1..MaxObjs}
        \* the threshold set always contains the first object's exact inside count (the >= / > boundary)
        /\ \E tt \in T0T1 : \E m \in MinPtsSet \cup {Cardinality({p \in Cloud : Inside(p, objs[1].box, ScaleAt(tt[1], tt[2], Dist(objs[1].box.c)))})} :
              cfg = [t |-> tt, minPts |-> m]
        /\ areas \in {<<>>} \cup {<<a>> : a \in Areas} \cup {<<a, b>> : a, b \in Areas}

InsideSet(b, s) == {p \in Cloud : Inside(p, b, s)}
BoundarySet(b, s) == {p \in Cloud : Boundary(p, b, s)}

\* statuses a sensing result may legitimately get (boundary points may fall either way)
Statuses(o, g) ==
  LET n == Cardinality(InsideSet(o.box, ObjScale(o, g)))
      m == Cardinality(BoundarySet(o.box, ObjScale(o, g)))
  IN IF o.vis = "none" THEN {"warning"}
     ELSE {IF k >= g.minPts THEN "success" ELSE "fail" : k \in n..(n + m)}

\* points of a non-detection area that must / may be reported as failures
MustFail(ar) == {p \in Cloud : InPrism(ar, p) /\ \A i \in 1..Len(objs) : Outside(p, objs[i].box, ObjScale(objs[i], cfg))}
MayFail(ar) == {p \in Cloud : (InPrism(ar, p) \/ PrismBoundary(ar, p)) /\ \A i \in 1..Len(objs) : ~Inside(p, objs[i].box, ObjScale(objs[i], cfg))}

Eval ==
  /\ phase = "input" /\ phase' = "done"
  /\ out' = IF kind = "box" THEN [inside |-> InsideSet(box, scale), boundary |-> BoundarySet(box, scale)]
            ELSE IF kind = "scale" THEN [scaleAt |-> ScaleAt(cfg.t[1], cfg.t[2], scale[1])]
            ELSE [objects |-> [i \in 1..Len(objs) |->
                                 [inside |-> Cardinality(InsideSet(objs[i].box, ObjScale(objs[i], cfg))),
                                  boundary |-> Cardinality(BoundarySet(objs[i].box, ObjScale(objs[i], cfg))),
                                  statuses |-> Statuses(objs[i], cfg), scale |-> ObjScale(objs[i], cfg)]],
                  areas |-> [k \in 1..Len(areas) |-> [must |-> MustFail(areas[k]), may |-> MayFail(areas[k])]],
                  prisms |-> [k \in 1..Len(areas) |-> [inside |-> {p \in Cloud : InPrism(areas[k], p)}, boundary |-> {p \in Cloud : PrismBoundary(areas[k], p)}]]]
  /\ UNCHANGED <<kind, box, scale, objs, cfg, areas>>
Next == Eval

LawPartition == kind = "box" => \A p \in Cloud : Partition(p, box, scale)
LawScaleMonotone == kind = "box" => \A p \in Cloud : \A s2 \in Scales : ScaleMonotone(p, box, scale, s2)
LawOneStatus == (kind = "frame" /\ phase = "done") => \A i \in 1..Len(objs) : out.objects[i].statuses # {}
LawMustSubsetMay == (kind = "frame" /\ phase = "done") => \A k \in 1..Len(areas) : out.areas[k].must \subseteq out.areas[k].may
=============================================================================
