------------------------------- MODULE Areas -------------------------------
(***************************************************************************)
(* The 1 / 3 / 9 partition of the evaluated rectangle used by the analyzer *)
(* (tool/utils.py generate_area_points, get_area_idx, extract_area_results;*)
(* growth item of DESIGN section 7).  max_x = 3a, max_y = 3b, so that the  *)
(* thirds are integers; an area is the OPEN rectangle (xlo, xhi) x         *)
(* (ylo, yhi) in ego coordinates (x forward, y to the left).  Numbering as *)
(* built: for 3 areas front to back; for 9 areas index = 3 i + j with j    *)
(* counting front to back and i counting left to right (the diagram in the *)
(* docstring shows the transposed numbering - recorded in DESIGN 11.6, no  *)
(* listed property speaks about the numbering).                            *)
(***************************************************************************)
EXTENDS Integers, Sequences, FiniteSets

Rect(xlo, xhi, ylo, yhi) == [xlo |-> xlo, xhi |-> xhi, ylo |-> ylo, yhi |-> yhi]
Areas(N, a, b) ==
  IF N = 1 THEN <<Rect(-3 * a, 3 * a, -3 * b, 3 * b)>>
  ELSE IF N = 3 THEN [k \in 1..3 |-> Rect(3 * a - 2 * a * k, 3 * a - 2 * a * (k - 1), -3 * b, 3 * b)]
  ELSE [n \in 1..9 |-> LET i == (n - 1) \div 3  j == (n - 1) % 3 IN
                       Rect(3 * a - 2 * a * (j + 1), 3 * a - 2 * a * j, 3 * b - 2 * b * (i + 1), 3 * b - 2 * b * i)]

Inside(p, r) == p[1] > r.xlo /\ p[1] < r.xhi /\ p[2] > r.ylo /\ p[2] < r.yhi
Holders(p, N, a, b) == {k \in 1..N : Inside(p, Areas(N, a, b)[k])}
\* 0 = in no area (outside the rectangle or on a border)
AreaOf(p, N, a, b) == IF Holders(p, N, a, b) = {} THEN 0 ELSE CHOOSE k \in Holders(p, N, a, b) : TRUE

OnBorder(p, a, b) == p[1] \in {-3 * a, -a, a, 3 * a} \/ p[2] \in {-3 * b, -b, b, 3 * b}
InBig(p, a, b) == p[1] > -3 * a /\ p[1] < 3 * a /\ p[2] > -3 * b /\ p[2] < 3 * b

(* ---- laws ---------------------------------------------------------------- *)
\* the areas are pairwise disjoint, and together they cover the rectangle except for the borders
Partition(p, N, a, b) ==
  /\ Cardinality(Holders(p, N, a, b)) <= 1
  /\ (InBig(p, a, b) /\ ~OnBorder(p, a, b)) => Cardinality(Holders(p, N, a, b)) = 1
  /\ ~InBig(p, a, b) => Holders(p, N, a, b) = {}
\* the 3-partition is the 9-partition with the left / centre / right cells of a row merged
Refines(p, a, b) ==
  (AreaOf(p, 9, a, b) # 0) => AreaOf(p, 3, a, b) = ((AreaOf(p, 9, a, b) - 1) % 3) + 1
\* selecting a set of areas keeps exactly the objects whose area is in the set
Select(points, sel, N, a, b) == SelectSeq(points, LAMBDA p : AreaOf(p, N, a, b) \in sel)
=============================================================================
