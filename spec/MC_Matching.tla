---------------------------- MODULE MC_Matching ----------------------------
(* Engine M: the matcher over ALL abstract score tables up to a bound.      *)
EXTENDS Matching, TLC
CONSTANTS MaxE, MaxG, K

Init ==
  /\ nE \in 0..MaxE /\ nG \in 0..MaxG
  /\ score \in [(1..nE) \X (1..nG) -> 0..K]
  /\ valid \in [(1..nE) \X (1..nG) -> BOOLEAN]
  /\ compat \in [(1..nE) \X (1..nG) -> BOOLEAN]
  /\ maximize \in BOOLEAN /\ fpval \in BOOLEAN
  /\ availE = {} /\ availG = {} /\ stage = "start" /\ res = <<>>

Spec == Init /\ [][Next]_vars
=============================================================================
