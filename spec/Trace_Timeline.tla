---------------------------- MODULE Trace_Timeline ----------------------------
(***************************************************************************)
(* Engine T for C17: random timelines (times in units of 100 us relative   *)
(* to the first possible frame), random float poses (cm / 0.1 mrad), any   *)
(* query time and tolerance.  Event: times (sorted), t, tol, lookup (index *)
(* of the frame get_now_frame returned, 0 = None), interp (index of the    *)
(* neighbour returned by the interpolating lookup, 0 = an interpolated     *)
(* frame, -1 = None), stamped, objs (interpolated objects with their two   *)
(* source poses).  TLC recomputes the admissible answers with Timeline.tla *)
(* and checks the interpolated poses in fixed point.                       *)
(***************************************************************************)
EXTENDS Timeline, TLC, Json, IOUtils
VARIABLES l, nrej
Trace == ndJsonDeserialize(IOEnv.TRACE_FILE)
Ev == Trace[l]
M == 62832
Frames(ev) == [i \in 1..Len(ev.times) |-> [time |-> ev.times[i], ego |-> [x |-> 0, y |-> 0, q |-> 0], objs |-> <<>>]]
PosOK(o, t1, t2, t) ==
  IF o.in1 = 1 /\ o.in2 = 1 THEN
     /\ Abs(o.x * (t2 - t1) - LerpNum(o.x1, o.x2, t1, t2, t)) <= 2 * (t2 - t1)
     /\ Abs(o.y * (t2 - t1) - LerpNum(o.y1, o.y2, t1, t2, t)) <= 2 * (t2 - t1)
  ELSE IF o.in1 = 1 THEN Abs(o.x - o.x1) <= 1 /\ Abs(o.y - o.y1) <= 1
  ELSE Abs(o.x - o.x2) <= 1 /\ Abs(o.y - o.y2) <= 1
\* angles: compare on the circle with 6 units (0.6 mrad) slack
AngNear(a, b, slack) == LET r == Mod(a - b, M) IN r <= slack \/ M - r <= slack
YawOK(o, t1, t2, t) ==
  IF o.in1 = 1 /\ o.in2 = 1 THEN
     \* a1 + Arc * f  with f = (t - t1)/(t2 - t1) ; integer division keeps everything below 2^31
     AngNear(o.yaw, o.yaw1 + (Arc(o.yaw1, o.yaw2, M) * (t - t1)) \div (t2 - t1), 8)
  ELSE IF o.in1 = 1 THEN AngNear(o.yaw, o.yaw1, 2) ELSE AngNear(o.yaw, o.yaw2, 2)
Verdict(ev) ==
  LET fs == Frames(ev)
      b == Before(fs, ev.t, ev.tol)  a == After(fs, ev.t, ev.tol)
  IN
  IF ev.lookup \notin Lookup(fs, ev.t, ev.tol) THEN "lookup-not-nearest-within-tolerance"
  ELSE IF b = 0 /\ a = 0 THEN (IF ev.interp = -1 THEN "ok" ELSE "interp-should-be-none")
  ELSE IF b = 0 THEN (IF ev.interp = a THEN "ok" ELSE "interp-only-after-neighbour")
  ELSE IF a = 0 THEN (IF ev.interp = b THEN "ok" ELSE "interp-only-before-neighbour")
  ELSE IF ev.interp # 0 THEN "interp-not-interpolated"
  ELSE IF ev.stamped # ev.t THEN "interp-time"
  ELSE IF Len(ev.objs) # ev.nobj_union THEN "interp-object-set"
  ELSE IF \E i \in 1..Len(ev.objs) : ~PosOK(ev.objs[i], fs[b].time, fs[a].time, ev.t) THEN "interp-position"
  ELSE IF \E i \in 1..Len(ev.objs) : ~YawOK(ev.objs[i], fs[b].time, fs[a].time, ev.t) THEN "interp-yaw"
  ELSE "ok"
TraceInit == l = 1 /\ nrej = 0
TraceNext == /\ l <= Len(Trace) /\ l' = l + 1
             /\ IF Verdict(Ev) = "ok" THEN UNCHANGED nrej
                ELSE PrintT(<<"REJECT", Ev.tid, l, Verdict(Ev)>>) /\ nrej' = nrej + 1
Consumed == TLCGet("stats").diameter - 1 = Len(Trace)
=============================================================================
