------------------------- MODULE MC_MatchingScene -------------------------
(***************************************************************************)
(* Engines M and R: the matcher on concrete lattice scenes.  A scene fixes *)
(* integer positions of equally sized axis-aligned 2x2(x2) boxes / ROIs,   *)
(* labels, frame ids, label policy, target list, matchable-threshold list  *)
(* and matching mode; the score table of Matching.tla is DERIVED from it   *)
(* exactly as _get_score_table() derives it, so every terminated state is  *)
(* a complete replay case (scene + admissible result) for the real code.   *)
(*                                                                         *)
(* For equally sized aligned boxes: centre distance^2 = plane distance^2 = *)
(* dx^2+dy^2; IoU (2D and 3D) = I/(8-I) with I = max(0,2-|dx|)*max(0,2-|dy|)*)
(* so IoU order = order of I and "IoU > n/d" <=> I*d > n*(8-I).            *)
(***************************************************************************)
EXTENDS Matching, Labels, TLC, Randomization

CONSTANTS
  MaxE, MaxG,          \* max number of estimates / ground truths
  PX, PY,              \* positions range over (0..PX) \X (0..PY)
  ELabels, GLabels,    \* label alphabets
  Frames,              \* frame-id alphabet (1 element = single frame)
  PolicySet, TargetSets, RadiusSets, ModeSet, FpvalSet,
  Sample               \* 0 = enumerate the whole space, n > 0 = RandomSubset(n, space)

VARIABLE scene

Pos == (0..PX) \X (0..PY)

ScenesOf(a, b) ==
  [ne : {a}, ng : {b},
   epos : [1..a -> Pos], gpos : [1..b -> Pos],
   elab : [1..a -> ELabels], glab : [1..b -> GLabels],
   efr : [1..a -> Frames], gfr : [1..b -> Frames],
   policy : PolicySet, targets : TargetSets, radius : RadiusSets,
   mode : ModeSet, fpval : FpvalSet]

WellFormed(s) ==
  \* a matchable-threshold list has one entry per target label
  /\ (s.radius # <<>> => Len(s.radius) = Len(s.targets))
  \* no two ground truths identical in every respect (DynamicObject.__eq__ would identify them)
  /\ \A i, j \in 1..s.ng : i < j => ~(s.gpos[i] = s.gpos[j] /\ s.glab[i] = s.glab[j] /\ s.gfr[i] = s.gfr[j])

Min(a, b) == IF a < b THEN a ELSE b
\* Sample = 0: every scene with up to MaxE x MaxG objects;
\* Sample = n: n random scenes of each of the four largest shapes
Space ==
  IF Sample = 0
  THEN UNION {{s \in ScenesOf(a, b) : WellFormed(s)} : a \in 0..MaxE, b \in 0..MaxG}
  ELSE UNION {{s \in RandomSubset(Sample, ScenesOf(a, b)) : WellFormed(s)} : a \in (MaxE - 1)..MaxE, b \in (MaxG - 1)..MaxG}

Abs(x) == IF x < 0 THEN -x ELSE x
Max(a, b) == IF a > b THEN a ELSE b
IsIoU(m) == m \in {"iou2d", "iou3d"}

Dist2(p, q) == (p[1] - q[1]) * (p[1] - q[1]) + (p[2] - q[2]) * (p[2] - q[2])
Inter(p, q) == Max(0, 2 - Abs(p[1] - q[1])) * Max(0, 2 - Abs(p[2] - q[2]))

SceneScore(s, e, g) == IF IsIoU(s.mode) THEN Inter(s.epos[e], s.gpos[g]) ELSE Dist2(s.epos[e], s.gpos[g])

\* thresholds are <<num, den>>: distance d < num/den  <=>  d^2 * den^2 < num^2 ;
\* IoU = I/(8-I) > num/den  <=>  I*den > num*(8-I)
Within(s, e, g) ==
  LET t == LabelThreshold(s.glab[g], s.targets, s.radius) IN
  IF t = NoThr THEN TRUE
  ELSE IF IsIoU(s.mode)
       THEN Inter(s.epos[e], s.gpos[g]) * t[2] > t[1] * (8 - Inter(s.epos[e], s.gpos[g]))
       ELSE Dist2(s.epos[e], s.gpos[g]) * t[2] * t[2] < t[1] * t[1]

SceneValid(s, e, g) == s.efr[e] = s.gfr[g] /\ Within(s, e, g)
SceneCompat(s, e, g) == Compat(s.policy, s.elab[e], s.glab[g])

Init ==
  /\ scene \in Space
  /\ nE = scene.ne /\ nG = scene.ng
  /\ score = [p \in (1..nE) \X (1..nG) |-> SceneScore(scene, p[1], p[2])]
  /\ valid = [p \in (1..nE) \X (1..nG) |-> SceneValid(scene, p[1], p[2])]
  /\ compat = [p \in (1..nE) \X (1..nG) |-> SceneCompat(scene, p[1], p[2])]
  /\ maximize = IsIoU(scene.mode)
  /\ fpval = scene.fpval
  /\ availE = {} /\ availG = {} /\ stage = "start" /\ res = <<>>

SBegin == Begin /\ UNCHANGED scene
SStage1 == DoStage1 /\ UNCHANGED scene
SEndStage1 == EndStage1 /\ UNCHANGED scene
SStage2 == DoStage2 /\ UNCHANGED scene
SFinish == Finish /\ UNCHANGED scene
SNext == SBegin \/ SStage1 \/ SEndStage1 \/ SStage2 \/ SFinish
=============================================================================
