------------------------------ MODULE MC_Clear ------------------------------
(***************************************************************************)
(* Engines M and R for C05: all histories of frames over small alphabets.  *)
(* `hist` carries the consumed frames so that a dumped state is a whole    *)
(* behaviour that can be replayed through the real CLEAR class.            *)
(***************************************************************************)
EXTENDS Clear, TLC

CONSTANTS EstIds, GtIds, ELabels, GLabels, MaxObjs, MaxFrames, Targets, CheckRenaming, GSet, Levels, Cfgs

VARIABLES hist, out
mvars == <<cvars, hist, out>>

\* results that divide_objects(...) puts into bucket L: estimate label L, or an estimate label outside the target
\* list paired with a ground truth of label L
InBucket(r) == r.el = L \/ (~InTargets(r.el, Targets) /\ r.g # 0 /\ r.gl = L)

AllResults ==
  {r \in [e : EstIds, el : ELabels, g : GtIds \cup {0}, gl : GLabels, sc : Levels] :
       /\ InBucket(r)
       /\ (r.g = 0 => (r.gl = L /\ r.sc = CHOOSE lv \in Levels : TRUE))}   \* canonical filler for "no ground truth"

\* frames with at most MaxObjs (<= 3) results, built without enumerating SUBSET AllResults
FramesOfSize(k) ==
  IF k = 0 THEN {{}}
  ELSE IF k = 1 THEN {{a} : a \in AllResults}
  ELSE IF k = 2 THEN {f \in {{a, b} : a, b \in AllResults} : Cardinality(f) = 2 /\ WellFormedFrame(f)}
  ELSE {f \in {{a, b, c} : a, b, c \in AllResults} : Cardinality(f) = 3 /\ WellFormedFrame(f)}
AllFrames == UNION {FramesOfSize(k) : k \in 0..MaxObjs}

Init == Init0 /\ cfg \in Cfgs /\ prev = {} /\ hist = <<>> /\ out = <<>>

DoFirst == out = <<>> /\ (\E f \in AllFrames : First(f) /\ hist' = <<f>>) /\ UNCHANGED out
DoFrame == /\ out = <<>> /\ Len(hist) < MaxFrames
           /\ \E f \in AllFrames : Frame(f) /\ hist' = Append(hist, f)
           /\ UNCHANGED out
\* CLEAR(...).results for a ground-truth count G: the specification's outputs, stored for the replay
DoScore == /\ out = <<>> /\ Len(hist) >= 1
           /\ \E G \in GSet : out' = [g |-> G, mota |-> Mota(G), tp |-> tp, fp |-> fp, idsw |-> idsw, by |-> tpBy, n |-> nres]
           /\ UNCHANGED <<cvars, hist>>
Next == DoFirst \/ DoFrame \/ DoScore

MotaRange == out # <<>> => (out.mota = Inf \/ (out.mota[1] >= 0 /\ (tp <= out.g => out.mota[1] <= out.mota[2])))

(* invariants over the carried history *)
TotalsAgree ==
  Len(hist) >= 1 =>
    LET t == Totals(hist, Len(hist)) IN
    t.tp = tp /\ t.fp = fp /\ t.idsw = idsw /\ t.by = tpBy /\ t.n = nres

Accounting ==
  /\ tp + fp <= nres
  /\ (Len(hist) >= 2 => AccountingStep(hist[Len(hist) - 1], hist[Len(hist)]))
  /\ idsw <= tp

TpByLevelSums == BagSize(tpBy) = tp

SwitchDefinition == Len(hist) >= 2 => SwitchDefinitionStep(hist[Len(hist) - 1], hist[Len(hist)])

RenamingInvariance ==
  (CheckRenaming /\ Len(hist) >= 2) =>
    \A pe \in Permutations(EstIds), pg \in Permutations(GtIds) :
       Totals(RenameHist(hist, pe, pg), Len(hist)) = Totals(hist, Len(hist))

(* named scenarios *)
AllCorrectPairs(f) == \A r \in f : Correct(r) /\ ~Ignored(r)
PairsOf(f) == {<<r.e, r.el, r.g>> : r \in f}
\* perfect tracker: every frame holds the same correct pairs -> no FP, no switch, every result a TP
PerfectTracker ==
  (Len(hist) >= 2 /\ \A i \in DOMAIN hist : AllCorrectPairs(hist[i]) /\ PairsOf(hist[i]) = PairsOf(hist[1]))
     => (fp = 0 /\ idsw = 0 /\ tp = nres)
\* a new estimate id on a continuing target costs exactly one switch in that frame
NewIdCostsOne ==
  (Len(hist) >= 2) =>
    LET pf == hist[Len(hist) - 1]  cf == hist[Len(hist)] IN
    \A c \in cf : (/\ Correct(c) /\ ~Ignored(c)
                   /\ (\E p \in PrevTPs(pf) : p.g = c.g /\ ~SameEst(c, p))
                   /\ ~(\E p \in PrevTPs(pf) : SameEst(c, p)))
                  => Case(c, pf) = "SwitchedTP"
\* exchanging the identities of two continuing targets costs exactly two switches
ExchangeCostsTwo ==
  (Len(hist) >= 2) =>
    LET pf == hist[Len(hist) - 1]  cf == hist[Len(hist)] IN
    \A a, b \in cf :
      (/\ a # b /\ AllCorrectPairs(pf) /\ AllCorrectPairs(cf) /\ Cardinality(pf) = 2 /\ Cardinality(cf) = 2
       /\ \E pa, pb \in pf : /\ pa # pb /\ SameEst(a, pa) /\ SameEst(b, pb)
                             /\ a.g = pb.g /\ b.g = pa.g)
      => Delta(pf, cf).idsw = 2
=============================================================================
