----------------------------- MODULE MC_Timeline -----------------------------
(* Engines M and R for C17: time-ordered frame lists over a small time line,  *)
(* every query time (before, between, on, after frames) and tolerance.        *)
EXTENDS Timeline, TLC, Randomization
CONSTANTS Times, QueryTimes, Tols, MaxFrames, Ids, ObjPoses, EgoPoses, Sample
VARIABLES frames, t, tol, phase, out

FrameSpace == [time : Times, ego : EgoPoses, objs : UNION {[S -> ObjPoses] : S \in SUBSET Ids}]
Increasing(fs) == \A i \in 1..(Len(fs) - 1) : fs[i].time < fs[i + 1].time
\* shortest arcs are well defined (no antipodal neighbours)
NoAntipodal(fs) == \A i \in 1..(Len(fs) - 1) :
    /\ ~Antipodal(fs[i].ego.q, fs[i + 1].ego.q, 4)
    /\ \A id \in (DOMAIN fs[i].objs) \cap (DOMAIN fs[i + 1].objs) : ~Antipodal(fs[i].objs[id].a, fs[i + 1].objs[id].a, 24)
Lists == UNION {{fs \in RandomSubset(Sample, [1..n -> FrameSpace]) : Increasing(fs) /\ NoAntipodal(fs)} : n \in 1..MaxFrames}

Init == frames \in Lists /\ t \in QueryTimes /\ tol \in Tols /\ phase = "input" /\ out = <<>>
Next == /\ phase = "input" /\ phase' = "done"
        /\ out' = [lookup |-> Lookup(frames, t, tol), interp |-> InterpLookup(frames, t, tol)]
        /\ UNCHANGED <<frames, t, tol>>

LawWithin == LookupWithinTol(frames, t, tol)
LawFinds == LookupFindsNearest(frames, t, tol)
LawNeighbour == AtNeighbourReproduces(frames, t, tol)
LawInterpAnswers == InterpAnswersWhenLookupDoes(frames, t, tol)
=============================================================================
