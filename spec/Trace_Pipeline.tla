--------------------------- MODULE Trace_Pipeline ---------------------------
(***************************************************************************)
(* Engine T for the manager pipeline (C03, C07, C10, C13): executions of   *)
(* PerceptionEvaluationManager.add_frame_result on large random scenes     *)
(* (up to 8 x 8 objects on a centimetre lattice spanning +-40 m, random    *)
(* configurations, objects stored in base_link or in map under an          *)
(* arbitrary ego pose) validated step by step against Manager.tla.         *)
(*                                                                         *)
(* One event per step of the specification's machine:                      *)
(*   Begin    cfg, frame (ego-relative coordinates in cm, bounds in half   *)
(*            centimetres)                                                 *)
(*   Filter   g1   : ground truths leaving the manager filter              *)
(*   Match    rsu  : results leaving _filter_objects (after the uuid       *)
(*                   filter); the matcher's own list is inferred: some     *)
(*                   outcome of Matching.tla must explain it               *)
(*   Uuid     (no data)                                                    *)
(*   Crit     rs2, g2                                                      *)
(*   Classify tp, fp, fn, tn                                               *)
(*   Metrics  cd, pd : AP x 1e5 per target label (-1 = undefined)          *)
(* Verdicts are total: a step whose logged data no behaviour of the        *)
(* specification explains is reported with its clause and the rest of that *)
(* scene is skipped.                                                       *)
(***************************************************************************)
EXTENDS Manager, Json, IOUtils

VARIABLES l, nrej, live
Trace == ndJsonDeserialize(IOEnv.TRACE_FILE)
Ev == Trace[l]

PairSet(s) == {<<s[i][1], s[i][2]>> : i \in 1..Len(s)}
IdSet(s) == {s[i] : i \in 1..Len(s)}

TraceInit ==
  /\ l = 1 /\ nrej = 0 /\ live = 0
  /\ cfg = [targets |-> <<>>] /\ frame = [ests |-> <<>>, gts |-> <<>>]
  /\ pc = "idle" /\ e1 = <<>> /\ g1 = <<>> /\ rs = <<>> /\ rs2 = <<>> /\ g2 = <<>>
  /\ tp = {} /\ fp = {} /\ fn = {} /\ tn = {} /\ aps = <<>>

\* outcomes of the matcher whose uuid-filtered image is the logged result list
MatchCandidates(ev) == {r \in MatchResults : PairSet(UuidFiltered(r)) = PairSet(ev.rsu) /\ Len(UuidFiltered(r)) = Len(ev.rsu)}

ApClose(spec, logged) ==
  /\ Len(spec) = Len(logged)
  /\ \A k \in 1..Len(spec) :
       IF spec[k][1] = -1 THEN logged[k] = -1
       ELSE IF spec[k][2] = 0 THEN logged[k] = 0
       ELSE logged[k] # -1 /\ (logged[k] * spec[k][2] - spec[k][1] * 100000 <= spec[k][2]) /\ (spec[k][1] * 100000 - logged[k] * spec[k][2] <= spec[k][2])

StepVerdict(ev) ==
  IF ev.ev = "Filter" THEN
     (IF pc # "filter" THEN "out-of-order" ELSE IF FilteredGts # ev.g1 THEN "manager-filter-ground-truth" ELSE "ok")
  ELSE IF ev.ev = "Match" THEN
     (IF pc # "match" THEN "out-of-order"
      ELSE IF IdSet(e1) # {ev.rsu[i][1] : i \in 1..Len(ev.rsu)} /\ ~cfg.mfilter.uuids THEN "manager-filter-estimates-or-lost-estimate"
      ELSE IF MatchCandidates(ev) = {} THEN "matching-not-a-two-stage-greedy-outcome" ELSE "ok")
  ELSE IF ev.ev = "Uuid" THEN (IF pc # "uuid" THEN "out-of-order" ELSE "ok")
  ELSE IF ev.ev = "Crit" THEN
     (IF pc # "crit" THEN "out-of-order"
      ELSE IF PairSet(CritResults(rs)) # PairSet(ev.rs2) \/ Len(CritResults(rs)) # Len(ev.rs2) THEN "critical-filter-results"
      ELSE IF CritGts(g1) # ev.g2 THEN "critical-filter-ground-truth" ELSE "ok")
  ELSE IF ev.ev = "Classify" THEN
     (IF pc # "classify" THEN "out-of-order"
      ELSE IF TpOf(rs2) # PairSet(ev.tp) \/ Len(ev.tp) # Cardinality(TpOf(rs2)) THEN "tp-list"
      ELSE IF FpOf(rs2) # PairSet(ev.fp) \/ Len(ev.fp) # Cardinality(FpOf(rs2)) THEN "fp-list"
      ELSE IF FnOf(rs2, g2) # IdSet(ev.fn) \/ Len(ev.fn) # Cardinality(FnOf(rs2, g2)) THEN "fn-list"
      ELSE IF TnOf(rs2, g2) # IdSet(ev.tn) \/ Len(ev.tn) # Cardinality(TnOf(rs2, g2)) THEN "tn-list" ELSE "ok")
  ELSE IF ev.ev = "Metrics" THEN
     (IF pc # "metrics" THEN "out-of-order"
      ELSE IF ~ApClose(ApsOf(rs2, g2, cfg.cd), ev.cd) THEN "ap-center-distance"
      ELSE IF ~ApClose(ApsOf(rs2, g2, cfg.pd), ev.pd) THEN "ap-plane-distance" ELSE "ok")
  ELSE "unknown-event"

Reject(why) == /\ PrintT(<<"REJECT", Ev.tid, l, why>>) /\ nrej' = nrej + 1 /\ live' = 0
               /\ pc' = "idle" /\ UNCHANGED <<cfg, frame, e1, g1, rs, rs2, g2, tp, fp, fn, tn, aps>>

TraceNext ==
  /\ l <= Len(Trace)
  /\ l' = l + 1
  /\ IF Ev.ev = "Begin" THEN
        /\ cfg' = Ev.cfg /\ frame' = Ev.frame
        /\ pc' = "filter" /\ e1' = <<>> /\ g1' = <<>> /\ rs' = <<>> /\ rs2' = <<>> /\ g2' = <<>>
        /\ tp' = {} /\ fp' = {} /\ fn' = {} /\ tn' = {} /\ aps' = <<>>
        /\ live' = Ev.tid /\ UNCHANGED nrej
     ELSE IF live # Ev.tid THEN UNCHANGED <<mgrvars, nrej, live>>
     ELSE IF StepVerdict(Ev) # "ok" THEN Reject(StepVerdict(Ev))
     ELSE /\ UNCHANGED <<nrej, live>>
          /\ IF Ev.ev = "Filter" THEN StepFilter
             ELSE IF Ev.ev = "Match" THEN
                  /\ rs' = CHOOSE r \in MatchCandidates(Ev) : TRUE
                  /\ pc' = "uuid" /\ UNCHANGED <<cfg, frame, e1, g1, rs2, g2, tp, fp, fn, tn, aps>>
             ELSE IF Ev.ev = "Uuid" THEN StepUuid
             ELSE IF Ev.ev = "Crit" THEN StepCrit
             ELSE IF Ev.ev = "Classify" THEN StepClassify
             ELSE StepMetrics

\* the invariants of Manager.tla along every validated execution
TResultsPartition == ResultsPartition
TGTConservation == GTConservation
TTPJustified == TPJustified
TNothingOutside == NothingOutsideCritical
TApWithinUnit == ApWithinUnit
Consumed == TLCGet("stats").diameter - 1 = Len(Trace)
=============================================================================
