------------------------------ MODULE Lattice ------------------------------
(***************************************************************************)
(* Exact geometry on integer lattices for the matching scores              *)
(* (evaluation/matching/object_matching.py; common/object.py get_footprint,*)
(* get_area_bev, get_volume; common/object2d.py Roi).                      *)
(*                                                                         *)
(* A box is [c : <<x,y,z>> integer centre, s : <<w,l,h>> positive integer  *)
(* size (width, length, height; length along the heading), q : 0..3 yaw in *)
(* quarter turns].  All coordinates below are DOUBLED so that half sizes   *)
(* stay integral: a real length v is represented by 2v.                    *)
(* A pair of boxes whose yaws are quarter turns of a COMMON direction is   *)
(* aligned: its scores are computed here exactly; the common direction and *)
(* a common translation only change how the scene is rendered for the     *)
(* real code (rigid-motion invariance, C06 / C18).                         *)
(***************************************************************************)
EXTENDS Integers, Sequences, FiniteSets

Abs(x) == IF x < 0 THEN -x ELSE x
Min(a, b) == IF a < b THEN a ELSE b
Max(a, b) == IF a > b THEN a ELSE b
Sq(x) == x * x

\* doubled half-extents along x and y of a box with quarter-turn yaw q
ExtX(b) == IF b.q % 2 = 0 THEN b.s[2] ELSE b.s[1]
ExtY(b) == IF b.q % 2 = 0 THEN b.s[1] ELSE b.s[2]

Lo(b, ax) == 2 * b.c[ax] - (IF ax = 1 THEN ExtX(b) ELSE IF ax = 2 THEN ExtY(b) ELSE b.s[3])
Hi(b, ax) == 2 * b.c[ax] + (IF ax = 1 THEN ExtX(b) ELSE IF ax = 2 THEN ExtY(b) ELSE b.s[3])
Overlap(a, b, ax) == Max(0, Min(Hi(a, ax), Hi(b, ax)) - Max(Lo(a, ax), Lo(b, ax)))     \* doubled

Area4(b) == 4 * b.s[1] * b.s[2]                           \* 4 x footprint area
Vol8(b) == 8 * b.s[1] * b.s[2] * b.s[3]                   \* 8 x volume
Inter4(a, b) == Overlap(a, b, 1) * Overlap(a, b, 2)       \* 4 x intersection area
Inter8(a, b) == Inter4(a, b) * Overlap(a, b, 3)           \* 8 x intersection volume

\* IoU as <<num, den>>
IoU2(a, b) == <<Inter4(a, b), Area4(a) + Area4(b) - Inter4(a, b)>>
IoU3(a, b) == <<Inter8(a, b), Vol8(a) + Vol8(b) - Inter8(a, b)>>

\* 4 x squared centre distance (3-D)
CDist2x4(a, b) == Sq(2 * a.c[1] - 2 * b.c[1]) + Sq(2 * a.c[2] - 2 * b.c[2]) + Sq(2 * a.c[3] - 2 * b.c[3])

\* footprint corners in the order of Shape.footprint ((l/2,w/2), (-l/2,w/2), (-l/2,-w/2), (l/2,-w/2)) rotated by the yaw,
\* doubled coordinates
Rot(q, v) == IF q % 4 = 0 THEN v
             ELSE IF q % 4 = 1 THEN <<-v[2], v[1]>>
             ELSE IF q % 4 = 2 THEN <<-v[1], -v[2]>>
             ELSE <<v[2], -v[1]>>
LocalCorner(b, k) == IF k = 1 THEN <<b.s[2], b.s[1]>>
                     ELSE IF k = 2 THEN <<-b.s[2], b.s[1]>>
                     ELSE IF k = 3 THEN <<-b.s[2], -b.s[1]>>
                     ELSE <<b.s[2], -b.s[1]>>
Corner(b, k) == LET r == Rot(b.q, LocalCorner(b, k)) IN <<2 * b.c[1] + r[1], 2 * b.c[2] + r[2]>>
Norm2(v) == Sq(v[1]) + Sq(v[2])

\* index pairs {i, j} that a sort of the ground truth's corner distances to the ego may put first (ties -> several)
NearestPairs(g) ==
  {p \in {{i, j} : i, j \in 1..4} :
      /\ Cardinality(p) = 2
      /\ \A i \in p : \A k \in (1..4) \ p : Norm2(Corner(g, i)) <= Norm2(Corner(g, k))}

\* admissible values of 8 x (plane distance)^2 :  pd^2 = ( |e_i - g_i|^2 + |e_j - g_j|^2 ) / 2  with doubled coordinates
CornerGap2(e, g, k) == Sq(Corner(e, k)[1] - Corner(g, k)[1]) + Sq(Corner(e, k)[2] - Corner(g, k)[2])
RECURSIVE SumGaps(_, _, _)
SumGaps(e, g, p) == IF p = {} THEN 0 ELSE LET k == CHOOSE x \in p : TRUE IN CornerGap2(e, g, k) + SumGaps(e, g, p \ {k})
PlaneAdm(e, g) == {SumGaps(e, g, p) : p \in NearestPairs(g)}

(* ---- 2-D ROIs [x, y, w, h] (integers, w, h > 0) ------------------------- *)
RoiOverlap(a, b, ax) == Max(0, Min(a[ax] + a[ax + 2], b[ax] + b[ax + 2]) - Max(a[ax], b[ax]))
RoiInter(a, b) == RoiOverlap(a, b, 1) * RoiOverlap(a, b, 2)
RoiIoU(a, b) == <<RoiInter(a, b), a[3] * a[4] + b[3] * b[4] - RoiInter(a, b)>>
RoiCenter(a) == <<a[1] + a[3] \div 2, a[2] + a[4] \div 2>>
RoiDist2(a, b) == Sq(RoiCenter(a)[1] - RoiCenter(b)[1]) + Sq(RoiCenter(a)[2] - RoiCenter(b)[2])

(* ---- properties (C06) ---------------------------------------------------- *)
InUnit(r) == 0 <= r[1] /\ r[1] <= r[2] /\ r[2] > 0
Bounds(a, b) == InUnit(IoU2(a, b)) /\ InUnit(IoU3(a, b))
Symmetry(a, b) == IoU2(a, b) = IoU2(b, a) /\ IoU3(a, b) = IoU3(b, a) /\ CDist2x4(a, b) = CDist2x4(b, a)
SameBox(a, b) == a.c = b.c /\ a.s = b.s /\ (a.q - b.q) % 2 = 0
IdenticalIsOne(a, b) == SameBox(a, b) => (IoU2(a, b)[1] = IoU2(a, b)[2] /\ IoU3(a, b)[1] = IoU3(a, b)[2] /\ PlaneAdm(a, b) \subseteq {0, 8 * (Sq(a.s[1]) + Sq(a.s[2]))})
DisjointIsZero(a, b) == (Overlap(a, b, 1) = 0 \/ Overlap(a, b, 2) = 0) => (IoU2(a, b)[1] = 0 /\ IoU3(a, b)[1] = 0)
\* IoU3 <= IoU2 by cross multiplication
ThreeDNotAboveBev(a, b) == IoU3(a, b)[1] * IoU2(a, b)[2] <= IoU2(a, b)[1] * IoU3(a, b)[2]
PlaneNonNegative(e, g) == \A v \in PlaneAdm(e, g) : v >= 0
PlaneZeroWhenIdentical(a) == PlaneAdm(a, a) = {0}
=============================================================================
