---------------------------- MODULE Trace_Scores ----------------------------
(***************************************************************************)
(* Engine T for C06: random float box pairs (any pose, yaw, size ratio up  *)
(* to 1:50; touching configurations excluded by margin) and random common  *)
(* rigid motions.  Scores in 1e-6 fixed point for (a,b), (b,a) and the     *)
(* moved pair (Ta,Tb); centre coordinates in cm.  TLC checks the relational*)
(* laws of Lattice.tla on them: bounds, symmetry, IoU3 <= IoU2, identical  *)
(* -> 1, far apart -> 0, invariance, d^2 = dx^2+dy^2+dz^2, plane >= 0.    *)
(***************************************************************************)
EXTENDS Integers, Sequences, TLC, Json, IOUtils
VARIABLES l, nrej
Trace == ndJsonDeserialize(IOEnv.TRACE_FILE)
Ev == Trace[l]
Abs(x) == IF x < 0 THEN -x ELSE x
Near(x, y, tol) == Abs(x - y) <= tol
Verdict(ev) ==
  IF ev.iou2 < 0 \/ ev.iou2 > 1000001 \/ ev.iou3 < 0 \/ ev.iou3 > 1000001 THEN "iou-out-of-unit-interval"
  ELSE IF ~Near(ev.iou2, ev.iou2_swapped, 2) \/ ~Near(ev.iou3, ev.iou3_swapped, 2) THEN "iou-not-symmetric"
  ELSE IF ~Near(ev.cd4, ev.cd4_swapped, 1) THEN "centre-distance-not-symmetric"
  ELSE IF ev.iou3 > ev.iou2 + 2 THEN "iou3d-above-bev"
  ELSE IF ev.identical = 1 /\ (ev.iou2 < 999998 \/ ev.iou3 < 999998 \/ ev.pd4 > 1 \/ ev.cd4 > 0) THEN "identical-boxes-not-perfect"
  ELSE IF ev.far = 1 /\ (ev.iou2 # 0 \/ ev.iou3 # 0) THEN "disjoint-boxes-overlap"
  ELSE IF ~Near(ev.iou2, ev.iou2_moved, 5) \/ ~Near(ev.iou3, ev.iou3_moved, 5) THEN "iou-changes-under-rigid-motion"
  ELSE IF ~Near(ev.cd4, ev.cd4_moved, 2) THEN "centre-distance-changes-under-rigid-motion"
  ELSE IF ev.rot_only = 1 /\ ~Near(ev.pd4, ev.pd4_moved, 3) THEN "plane-distance-changes-under-rotation-about-ego"
  ELSE IF ev.pd4 < 0 THEN "plane-distance-negative"
  \* cm coordinates: (cd in 1e-4 m)^2 = 1e-8 m^2 ; dx in cm -> dx^2 in 1e-4 m^2 ; compare in units of 1e-4 m^2 with rounding slack
  ELSE IF Abs((ev.cd4 \div 100) * (ev.cd4 \div 100) - (ev.dx * ev.dx + ev.dy * ev.dy + ev.dz * ev.dz)) > 2 * (Abs(ev.dx) + Abs(ev.dy) + Abs(ev.dz)) + 3 * (ev.cd4 \div 100) + 4 THEN "centre-distance-not-euclidean"
  ELSE "ok"
TraceInit == l = 1 /\ nrej = 0
TraceNext == /\ l <= Len(Trace) /\ l' = l + 1
             /\ IF Verdict(Ev) = "ok" THEN UNCHANGED nrej
                ELSE PrintT(<<"REJECT", Ev.tid, l, Verdict(Ev)>>) /\ nrej' = nrej + 1
Consumed == TLCGet("stats").diameter - 1 = Len(Trace)
=============================================================================
