----------------------------- MODULE MC_Pipeline -----------------------------
(***************************************************************************)
(* Engines M and R for C03 / C07 / C10 (manager wiring): one evaluated     *)
(* frame.  TLC picks a configuration and a lattice scene, runs the step    *)
(* machine of Manager.tla and checks the accounting invariants in every    *)
(* state; every terminated state is replayed through a real                *)
(* PerceptionEvaluationManager, once with the objects stored in the ego    *)
(* frame and once in the map frame under several ego poses.                *)
(***************************************************************************)
EXTENDS Manager, Randomization

CONSTANTS XS, YS, ELabels, GLabels, Confs, PtsSet, UuidSet, AttrSet,
          CfgSet, CritSet, PfSet, MaxE, MaxG, Sample

EstSpace == [x : XS, y : YS, label : ELabels, conf : Confs, attr : AttrSet, pts : {0}, uuid : {FALSE}]
GtSpace == [x : XS, y : YS, label : GLabels, conf : {100}, attr : AttrSet, pts : PtsSet, uuid : UuidSet]
FramesOf(a, b) == [ests : [1..a -> EstSpace], gts : [1..b -> GtSpace], crit : CritSet, pf : PfSet]

WellFormed(f) ==
  /\ \A i, j \in 1..Len(f.ests) : i < j => f.ests[i].conf # f.ests[j].conf
  \* two ground truths equal in time, label and pose are identified by DynamicObject.__eq__: excluded
  /\ \A i, j \in 1..Len(f.gts) : i < j =>
        ~(f.gts[i].x = f.gts[j].x /\ f.gts[i].y = f.gts[j].y /\ f.gts[i].label = f.gts[j].label)

FrameSpace ==
  IF Sample = 0 THEN UNION {{f \in FramesOf(a, b) : WellFormed(f)} : a \in 0..MaxE, b \in 0..MaxG}
  ELSE UNION {{f \in RandomSubset(Sample, FramesOf(a, b)) : WellFormed(f)} : a \in (MaxE - 1)..MaxE, b \in (MaxG - 1)..MaxG}

\* the frame configurations must line up with the manager's target list (Map looks the buckets up by the manager's labels)
Init == /\ cfg \in CfgSet /\ frame \in FrameSpace
        /\ frame.crit.targets = cfg.targets
        /\ InitPipeline
Next == PipelineNext
=============================================================================
