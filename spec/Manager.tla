------------------------------ MODULE Manager ------------------------------
(***************************************************************************)
(* PerceptionEvaluationManager.add_frame_result as a step machine          *)
(* (manager/perception_evaluation_manager.py, result/perception_frame_     *)
(* result.py, result/perception_pass_fail_result.py, metrics/metrics.py).  *)
(*                                                                         *)
(* A scene is expressed in EGO-RELATIVE integer coordinates -- the         *)
(* specification has no notion of the frame the objects are stored in;     *)
(* that the map-frame execution of the code conforms to the same           *)
(* behaviour is exactly property C07.                                      *)
(*                                                                         *)
(*   cfg   : [targets, policy, radius (list of <<num,den>> or <<>>),       *)
(*            mfilter (Filter parameters of the manager), cd, pd (centre / *)
(*            plane distance metric thresholds per target, half units,     *)
(*            <<>> = metric not configured)]                               *)
(*   frame : [ests, gts (sequences of Filter-style object records),        *)
(*            crit (critical-object Filter parameters),                    *)
(*            pf : [targets, thr (plane-distance thresholds in half units  *)
(*                  or <<>>)]]                                             *)
(* Steps (pc): "filter" -> "match" -> "uuid" -> "crit" -> "classify" ->    *)
(* "metrics" -> "done", one per stage of the implementation.               *)
(* Boxes are equally sized and aligned, so centre distance = plane         *)
(* distance = sqrt(dx^2+dy^2) (as in MC_MatchingScene).                    *)
(***************************************************************************)
EXTENDS Integers, Sequences, FiniteSets, Labels, Filter, PassFail, TLC

CONSTANTS MaxN,      \* maximal number of estimates in a frame (bounds ranking length)
          LcmN       \* lcm(1..MaxN)

VARIABLES cfg, frame,                      \* inputs (never change)
          pc, e1, g1, rs, rs2, g2,         \* pipeline state
          tp, fp, fn, tn,                  \* pass/fail lists: tp, fp results; fn, tn ground-truth ids
          aps                              \* metric outputs

pvars == <<pc, e1, g1, rs, rs2, g2, tp, fp, fn, tn, aps>>
mgrvars == <<cfg, frame, pvars>>

AP == INSTANCE Ap WITH W <- 1, N <- MaxN, L <- LcmN

Ests == frame.ests
Gts == frame.gts
Ids(s) == [i \in 1..Len(s) |-> i]

Dist2(e, g) == (Ests[e].x - Gts[g].x) * (Ests[e].x - Gts[g].x) + (Ests[e].y - Gts[g].y) * (Ests[e].y - Gts[g].y)

\* d < num/den
WithinRadius(e, g) ==
  LET t == LabelThreshold(Gts[g].label, cfg.targets, cfg.radius) IN
  t = NoThr \/ Dist2(e, g) * t[2] * t[2] < t[1] * t[1]

(* ---- stage 1: manager filter ------------------------------------------- *)
FilteredEsts == FilterIds(Ids(Ests), Ests, FALSE, cfg.mfilter)
\* ids of the ground truths present in the frame object handed to add_frame_result (all of them unless a history
\* model says otherwise)
GtIds == IF "gtIds" \in DOMAIN frame THEN frame.gtIds ELSE Ids(Gts)
FilteredGts == FilterIds(GtIds, Gts, TRUE, cfg.mfilter)

(* ---- stage 2: matching (Matching.tla instantiated on the filtered lists) *)
MM == INSTANCE Matching WITH
        None <- 0, nE <- Len(e1), nG <- Len(g1),
        score <- [p \in (1..Len(e1)) \X (1..Len(g1)) |-> Dist2(e1[p[1]], g1[p[2]])],
        valid <- [p \in (1..Len(e1)) \X (1..Len(g1)) |-> WithinRadius(e1[p[1]], g1[p[2]])],
        compat <- [p \in (1..Len(e1)) \X (1..Len(g1)) |-> Compat(cfg.policy, Ests[e1[p[1]]].label, Gts[g1[p[2]]].label)],
        maximize <- FALSE, fpval <- FALSE,
        availE <- {}, availG <- {}, stage <- "start", res <- <<>>

RECURSIVE SortedSeq(_)
SortedSeq(S) == IF S = {} THEN <<>>
                ELSE LET m == CHOOSE x \in S : \A y \in S : x[1] <= y[1] IN <<m>> \o SortedSeq(S \ {m})

\* all result lists the matcher may return (canonical order: by estimate id, matched before unmatched is not
\* promised by the statement; the lists are compared as sets)
MatchResults ==
  IF Len(e1) = 0 THEN {<<>>}
  ELSE IF Len(g1) = 0 THEN {[i \in 1..Len(e1) |-> <<e1[i], 0>>]}
  ELSE {SortedSeq({<<e1[p[1]], g1[p[2]]>> : p \in M}
                  \cup {<<e1[i], 0>> : i \in {k \in 1..Len(e1) : ~\E p \in M : p[1] = k}})
          : M \in MM!Outcomes(1..Len(e1), 1..Len(g1), 1)}

(* ---- stage 3: target-uuid filter on the results ------------------------ *)
UuidOnly == [NoFilter EXCEPT !.uuids = TRUE]
UuidFiltered(r) == IF cfg.mfilter.uuids THEN FilterResults(r, Ests, Gts, UuidOnly) ELSE r

(* ---- stage 4: critical-object filter ----------------------------------- *)
CritResults(r) == FilterResults(r, Ests, Gts, frame.crit)
CritGts(g) == FilterIds(g, Gts, TRUE, frame.crit)

(* ---- stage 5: pass / fail ---------------------------------------------- *)
PfHasThr(g) == frame.pf.thr # <<>> /\ InTargets(Gts[g].label, frame.pf.targets)
PfBeats(e, g) == LET t == Thr(Gts[g].label, frame.pf.targets, frame.pf.thr) IN 4 * Dist2(e, g) < t * t
StatusOf(r) ==
  IF r[2] = 0 THEN <<"FP", "none">>
  ELSE Status(TRUE, Ests[r[1]].label, Gts[r[2]].label, PfHasThr(r[2]), PfHasThr(r[2]) /\ PfBeats(r[1], r[2]), cfg.policy)

SeqToSet(s) == {s[i] : i \in 1..Len(s)}
TpOf(r2) == {r \in SeqToSet(r2) : StatusOf(r) = <<"TP", "TP">>}
\* an estimate whose FP-labelled ground truth is correctly rejected is reported as an FP WITHOUT ground truth
FpOf(r2) == {IF StatusOf(r)[2] = "TN" THEN <<r[1], 0>> ELSE r : r \in {x \in SeqToSet(r2) : StatusOf(x)[1] = "FP"}}
MatchedGts(r2) == {r[2] : r \in {x \in SeqToSet(r2) : x[2] # 0}}
TnOf(r2, gg) == {r[2] : r \in {x \in SeqToSet(r2) : StatusOf(x)[2] = "TN"}}
                  \cup {g \in SeqToSet(gg) \ MatchedGts(r2) : IsFP(Gts[g].label)}
FnOf(r2, gg) == {r[2] : r \in {x \in SeqToSet(r2) : StatusOf(x)[2] = "FN"}}
                  \cup {g \in SeqToSet(gg) \ MatchedGts(r2) : ~IsFP(Gts[g].label)}

(* ---- stage 6: detection metrics (AP per target label and threshold kind) *)
\* divide_objects: estimate label if it is a target, else the ground truth's label (if any)
BucketOf(r, targets) ==
  IF InTargets(Ests[r[1]].label, targets) THEN Ests[r[1]].label
  ELSE IF r[2] # 0 THEN Gts[r[2]].label ELSE "none"

RECURSIVE ByConfidence(_)
ByConfidence(S) == IF S = {} THEN <<>>
                   ELSE LET m == CHOOSE x \in S : \A y \in S : Ests[x[1]].conf >= Ests[y[1]].conf
                        IN <<m>> \o ByConfidence(S \ {m})

\* entry kind of a ranked result for bucket label lb under metric threshold list thr (half units)
EntryKind(r, lb, thr) ==
  LET tl == IF r[2] # 0 THEN Gts[r[2]].label ELSE Ests[r[1]].label IN
  IF tl # lb THEN AP!IGe
  ELSE IF r[2] = 0 THEN AP!FPe
  ELSE LET t == Thr(lb, cfg.targets, thr)
           beats == 4 * Dist2(r[1], r[2]) < t * t
       IN IF Correct(Ests[r[1]].label, Gts[r[2]].label, TRUE, beats, cfg.policy) THEN 1 ELSE AP!FPe

Ranking(r2, lb, thr) ==
  LET rk == ByConfidence({r \in SeqToSet(r2) : BucketOf(r, frame.crit.targets) = lb})
  IN [i \in 1..Len(rk) |-> EntryKind(rk[i], lb, thr)]
NumGt(gg, lb) == Cardinality({g \in SeqToSet(gg) : Gts[g].label = lb})

\* <<ApInt, Unit>> per target label ; <<-1, 0>> when undefined
ApOf(r2, gg, lb, thr) == <<AP!OpAP(Ranking(r2, lb, thr), NumGt(gg, lb), FALSE), AP!Unit(NumGt(gg, lb))>>
ApsOf(r2, gg, thr) == IF thr = <<>> THEN <<>> ELSE [i \in 1..Len(cfg.targets) |-> ApOf(r2, gg, cfg.targets[i], thr)]

(* ---- the step machine --------------------------------------------------- *)
InitPipeline ==
  /\ pc = "filter" /\ e1 = <<>> /\ g1 = <<>> /\ rs = <<>> /\ rs2 = <<>> /\ g2 = <<>>
  /\ tp = {} /\ fp = {} /\ fn = {} /\ tn = {} /\ aps = <<>>

StepFilter == /\ pc = "filter" /\ e1' = FilteredEsts /\ g1' = FilteredGts /\ pc' = "match"
              /\ UNCHANGED <<cfg, frame, rs, rs2, g2, tp, fp, fn, tn, aps>>
StepMatch == /\ pc = "match" /\ rs' \in MatchResults /\ pc' = "uuid"
             /\ UNCHANGED <<cfg, frame, e1, g1, rs2, g2, tp, fp, fn, tn, aps>>
StepUuid == /\ pc = "uuid" /\ rs' = UuidFiltered(rs) /\ pc' = "crit"
            /\ UNCHANGED <<cfg, frame, e1, g1, rs2, g2, tp, fp, fn, tn, aps>>
StepCrit == /\ pc = "crit" /\ rs2' = CritResults(rs) /\ g2' = CritGts(g1) /\ pc' = "classify"
            /\ UNCHANGED <<cfg, frame, e1, g1, rs, tp, fp, fn, tn, aps>>
StepClassify == /\ pc = "classify" /\ tp' = TpOf(rs2) /\ fp' = FpOf(rs2) /\ tn' = TnOf(rs2, g2) /\ fn' = FnOf(rs2, g2)
                /\ pc' = "metrics" /\ UNCHANGED <<cfg, frame, e1, g1, rs, rs2, g2, aps>>
StepMetrics == /\ pc = "metrics" /\ aps' = [cd |-> ApsOf(rs2, g2, cfg.cd), pd |-> ApsOf(rs2, g2, cfg.pd)]
               /\ pc' = "done" /\ UNCHANGED <<cfg, frame, e1, g1, rs, rs2, g2, tp, fp, fn, tn>>

PipelineNext == StepFilter \/ StepMatch \/ StepUuid \/ StepCrit \/ StepClassify \/ StepMetrics

(* ---- progress: every evaluation runs through its six steps and stops ----- *)
PcRank(p) == CASE p = "idle" -> 0 [] p = "filter" -> 1 [] p = "match" -> 2 [] p = "uuid" -> 3 [] p = "crit" -> 4 [] p = "classify" -> 5
               [] p = "metrics" -> 6 [] OTHER -> 7
\* some step is enabled until the evaluation is done (in particular the matcher always has an outcome) ...
Progress == (pc \in {"filter", "match", "uuid", "crit", "classify", "metrics"}) => ENABLED PipelineNext
\* ... and every step moves strictly forward, so an evaluation terminates after exactly six steps
PcAdvances == [][PcRank(pc') = PcRank(pc) + 1]_mgrvars

(* ---- properties (C03) --------------------------------------------------- *)
Done == pc = "done"
EstsOf(S) == {r[1] : r \in S}
\* every surviving result is exactly one of TP / FP
ResultsPartition == Done =>
  /\ EstsOf(tp) \cap EstsOf(fp) = {}
  /\ EstsOf(tp) \cup EstsOf(fp) = EstsOf(SeqToSet(rs2))
  /\ Cardinality(tp) + Cardinality(fp) = Len(rs2)
\* every critical ground truth is accounted for exactly once
GtOfTp == {r[2] : r \in tp}
GtOfMatchedFp == {r[2] : r \in {x \in fp : x[2] # 0}}
GTConservation == Done =>
  /\ \A g \in SeqToSet(g2) :
       IF IsFP(Gts[g].label)
       THEN (g \in tn) # (g \in GtOfMatchedFp) /\ g \notin fn /\ g \notin GtOfTp
       ELSE (g \in GtOfTp) # (g \in fn) /\ g \notin tn
  /\ fn \cup tn \cup GtOfTp \subseteq SeqToSet(g2)
  /\ Cardinality({g \in SeqToSet(g2) : ~IsFP(Gts[g].label)}) = Cardinality(tp) + Cardinality(fn)
\* a TP has a label-compatible ground truth whose score beats the threshold of the ground truth's label
TPJustified == Done => \A r \in tp :
  /\ r[2] # 0 /\ Compat(cfg.policy, Ests[r[1]].label, Gts[r[2]].label) /\ ~IsFP(Gts[r[2]].label)
  /\ (PfHasThr(r[2]) => PfBeats(r[1], r[2]))
\* nothing outside the critical region is counted
NothingOutsideCritical == Done =>
  /\ \A r \in SeqToSet(rs2) : IsTarget(Ests[r[1]], FALSE, EstParams(frame.crit))
                              /\ (r[2] # 0 => IsTarget(Gts[r[2]], TRUE, GtParams(frame.crit)))
  /\ \A g \in SeqToSet(g2) : IsTarget(Gts[g], TRUE, frame.crit)
\* with one-to-one matching AP stays within [0, 1]
ApWithinUnit == Done => \A k \in {"cd", "pd"} : \A i \in 1..Len(aps[k]) :
                   aps[k][i][1] = -1 \/ (0 <= aps[k][i][1] /\ aps[k][i][1] <= aps[k][i][2])
InputsUntouched == [][UNCHANGED <<cfg, frame>>]_mgrvars
=============================================================================
