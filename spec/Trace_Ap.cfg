INIT TraceInit
NEXT TraceNext
INVARIANT CountsConsistent
POSTCONDITION Consumed
CHECK_DEADLOCK FALSE
