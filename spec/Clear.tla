------------------------------- MODULE Clear -------------------------------
(***************************************************************************)
(* CLEAR tracking metrics for ONE label bucket                              *)
(* (perception_eval/evaluation/metrics/tracking/clear.py).                 *)
(*                                                                         *)
(* A frame is a set of object results                                      *)
(*   [e : estimate track id, el : estimate label,                          *)
(*    g : ground-truth track id (0 = no ground truth), gl : its label,     *)
(*    sc : matching-score level]                                           *)
(* with estimate ids and non-zero ground-truth ids unique within a frame   *)
(* (what one-to-one matching of uniquely identified tracks delivers).      *)
(* The machine consumes frames one at a time: `Frame(cur)` compares cur    *)
(* with the previous frame exactly as CLEAR._calculate_tp_fp does:         *)
(*   - a result whose threshold label (ground truth's label, else the      *)
(*     estimate's) is not the bucket label L is skipped (Ignored);         *)
(*   - CarryOverTP: some TP of the previous frame has the same estimate    *)
(*     id+label and the same ground-truth id -> TP, scored with the        *)
(*     PREVIOUS result's score (as built);                                 *)
(*   - otherwise a correct result is a TP with its own score, and it       *)
(*     costs one ID switch iff some TP of the previous frame shares        *)
(*     exactly one of {estimate id+label, ground-truth id} with it;        *)
(*   - otherwise FP.                                                       *)
(* Score levels: integers; `Beats(sc)` <=> sc < Thr (distance modes) or    *)
(* sc > Thr (IoU modes).  TPs are tallied per score level so the harness   *)
(* can map levels to the real score values of each matching mode.          *)
(***************************************************************************)
EXTENDS Integers, Sequences, FiniteSets, Labels

VARIABLES
  cfg,     \* input, never changes: [label, policy, thr, maximize] -- bucket label, label policy the results were
           \* built with, threshold (same unit as the scores), TRUE for IoU modes
  prev, tp, fp, idsw,
  tpBy,    \* bag: score value -> number of TPs credited with that score
  nres, nframes
cvars == <<cfg, prev, tp, fp, idsw, tpBy, nres, nframes>>

L == cfg.label
Policy == cfg.policy
Beats(sc) == IF cfg.maximize THEN sc > cfg.thr ELSE sc < cfg.thr
ThrLabel(r) == IF r.g # 0 THEN r.gl ELSE r.el
Ignored(r) == ThrLabel(r) # L
\* DynamicObjectWithPerceptionResult.is_result_correct
Correct(r) == /\ r.g # 0
              /\ IF IsFP(r.gl) THEN ~Beats(r.sc) ELSE Beats(r.sc) /\ Compat(Policy, r.el, r.gl)

SameEst(c, p) == c.e = p.e /\ c.el = p.el
SameGt(c, p) == c.g = p.g
SameMatch(c, p) == c.g # 0 /\ p.g # 0 /\ SameEst(c, p) /\ SameGt(c, p)
Switched(c, p) == c.g # 0 /\ p.g # 0 /\ (SameEst(c, p) # SameGt(c, p))

WellFormedFrame(f) ==
  /\ \A a, b \in f : (a # b) => a.e # b.e
  /\ \A a, b \in f : (a # b /\ a.g # 0) => a.g # b.g

PrevTPs(pf) == {p \in pf : Correct(p)}

\* the case a current result falls in
Case(c, pf) ==
  IF Ignored(c) THEN "Ignored"
  ELSE IF \E p \in PrevTPs(pf) : SameMatch(c, p) THEN "CarryOverTP"
  ELSE IF Correct(c) THEN (IF \E p \in PrevTPs(pf) : Switched(c, p) THEN "SwitchedTP" ELSE "FreshTP")
  ELSE "FP"

\* score level credited for a TP
Credit(c, pf) ==
  IF Case(c, pf) = "CarryOverTP" THEN (CHOOSE p \in PrevTPs(pf) : SameMatch(c, p)).sc ELSE c.sc

CountCase(cur, pf, k) == Cardinality({c \in cur : Case(c, pf) = k})
IsTPCase(k) == k \in {"CarryOverTP", "FreshTP", "SwitchedTP"}

\* per-frame deltas as a function of (previous frame, current frame)
Delta(pf, cur) ==
  [tp   |-> Cardinality({c \in cur : IsTPCase(Case(c, pf))}),
   fp   |-> CountCase(cur, pf, "FP"),
   idsw |-> CountCase(cur, pf, "SwitchedTP"),
   by   |-> LET lvs == {Credit(c, pf) : c \in {x \in cur : IsTPCase(Case(x, pf))}} IN
            [lv \in lvs |-> Cardinality({c \in cur : IsTPCase(Case(c, pf)) /\ Credit(c, pf) = lv})],
   n    |-> Cardinality(cur)]

\* bag union
BagAdd(a, b) == [k \in (DOMAIN a) \cup (DOMAIN b) |->
                   (IF k \in DOMAIN a THEN a[k] ELSE 0) + (IF k \in DOMAIN b THEN b[k] ELSE 0)]
EmptyBag == <<>>
RECURSIVE BagSize(_)
BagSize(b) == IF DOMAIN b = {} THEN 0
              ELSE LET k == CHOOSE x \in DOMAIN b : TRUE IN b[k] + BagSize([j \in (DOMAIN b) \ {k} |-> b[j]])
RECURSIVE BagWeight(_)
BagWeight(b) == IF DOMAIN b = {} THEN 0
                ELSE LET k == CHOOSE x \in DOMAIN b : TRUE IN k * b[k] + BagWeight([j \in (DOMAIN b) \ {k} |-> b[j]])

Init0 == /\ tp = 0 /\ fp = 0 /\ idsw = 0 /\ nres = 0 /\ nframes = 0
         /\ tpBy = EmptyBag

\* the first frame handed to CLEAR only serves as the initial "previous" frame
First(f) == /\ nframes = 0 /\ prev' = f /\ nframes' = 1
            /\ UNCHANGED <<cfg, tp, fp, idsw, tpBy, nres>>

Frame(cur) ==
  /\ nframes > 0
  /\ LET d == Delta(prev, cur) IN
     /\ tp' = tp + d.tp /\ fp' = fp + d.fp /\ idsw' = idsw + d.idsw
     /\ tpBy' = BagAdd(tpBy, d.by)
     /\ nres' = nres + d.n
  /\ prev' = cur /\ nframes' = nframes + 1
  /\ UNCHANGED cfg

(* ---- scores as exact rationals <<num, den>> ; <<0, 0>> = inf ------------ *)
Inf == <<0, 0>>
Mota(G) == IF G = 0 THEN Inf
           ELSE IF tp - fp - idsw <= 0 THEN <<0, 1>> ELSE <<tp - fp - idsw, G>>
\* MOTP = (sum of credited scores) / tp ; BagWeight(tpBy) is that sum when scores are numbers
Motp == IF tp = 0 THEN Inf ELSE <<BagWeight(tpBy), tp>>

(* ---- functional form over a whole history (for renaming invariance) ---- *)
RECURSIVE Totals(_, _)
Totals(h, k) ==   \* totals after consuming frames 2..k of history h (h[1] is the initial previous frame)
  IF k <= 1 THEN [tp |-> 0, fp |-> 0, idsw |-> 0, by |-> EmptyBag, n |-> 0]
  ELSE LET t == Totals(h, k - 1)  d == Delta(h[k - 1], h[k]) IN
       [tp |-> t.tp + d.tp, fp |-> t.fp + d.fp, idsw |-> t.idsw + d.idsw,
        by |-> BagAdd(t.by, d.by), n |-> t.n + d.n]

RenameFrame(f, pe, pg) == {[r EXCEPT !.e = pe[r.e], !.g = IF r.g = 0 THEN 0 ELSE pg[r.g]] : r \in f}
RenameHist(h, pe, pg) == [i \in DOMAIN h |-> RenameFrame(h[i], pe, pg)]

(* ---- properties (C05) --------------------------------------------------- *)
\* every non-ignored result after the initial frame is exactly one of TP / FP
AccountingStep(pf, cur) ==
  LET d == Delta(pf, cur) IN d.tp + d.fp = Cardinality({c \in cur : ~Ignored(c)})

\* an ID switch is counted once for each TP whose (estimate track, ground-truth track) pairing differs from the
\* pairing a TP of the previous frame had for either track
SwitchDefinitionStep(pf, cur) ==
  Delta(pf, cur).idsw =
    Cardinality({c \in cur : /\ IsTPCase(Case(c, pf))
                             /\ \E p \in PrevTPs(pf) : /\ (SameEst(c, p) \/ (c.g # 0 /\ c.g = p.g))
                                                       /\ ~(SameEst(c, p) /\ c.g = p.g)})
=============================================================================
