----------------------------- MODULE MC_Heading -----------------------------
(* Engines M and R for C09: all pairs of headings on the 15-degree grid and  *)
(* all common rotations.                                                     *)
EXTENDS Heading, TLC
CONSTANT M
VARIABLES a, b, k, phase, out
Init == a \in 0..(M - 1) /\ b \in 0..(M - 1) /\ k \in 0..(M - 1) /\ phase = "input" /\ out = <<>>
Next == /\ phase = "input" /\ phase' = "done"
        /\ out' = [d |-> D(a, b, M), w |-> WeightNum(a, b, M)]
        /\ UNCHANGED <<a, b, k>>
LawSym == Symmetric(a, b, M)
LawOne == EqualIsOne(a, M)
LawZero == OppositeIsZero(a, M)
LawRot == RotationInvariant(a, b, k, M)
LawRange == InRange(a, b, M)
LawErr == \E e \in -(M \div 2)..(M \div 2) : ErrOK(e, a, b, M)
=============================================================================
