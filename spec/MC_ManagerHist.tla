--------------------------- MODULE MC_ManagerHist ---------------------------
(***************************************************************************)
(* Engines M and R for C13: histories of add_frame_result calls on ONE     *)
(* manager.  The per-frame evaluation is the step machine of Manager.tla   *)
(* run to completion between BeginAdd and Commit.                          *)
(*   store        what the manager hands out for ground-truth frame i: the *)
(*                ids of the objects in ground_truth_frames[i].objects     *)
(*   frameResults the committed evaluations, in call order                 *)
(*   scene        get_scene_result() after the last commit: AP per target  *)
(*                label over the POOLED results (stable merge by           *)
(*                descending confidence, ground-truth counts summed)       *)
(* AsBuiltAliasedGT = TRUE models the implementation before the repair:    *)
(* _filter_objects / evaluate_frame assign the filtered lists back onto    *)
(* the shared FrameGroundTruth object.                                     *)
(***************************************************************************)
EXTENDS Manager, Analyzer

CONSTANTS Dataset,        \* sequence of ground-truth lists (one per dataset frame)
          EstVariants,    \* sequence of estimate lists
          CritVariants,   \* sequence of critical-object filter parameters
          Pf,             \* pass/fail configuration
          TheCfg,         \* manager configuration
          MaxCalls, AsBuiltAliasedGT, PoolN, PoolL

VARIABLES store, frameResults, cur, scene,
          table          \* what the analysis table built from frameResults must hold (Analyzer.tla)
hvars == <<store, frameResults, cur, scene, table>>
allvars == <<mgrvars, hvars>>

POOL == INSTANCE Ap WITH W <- 1, N <- PoolN, L <- PoolL

InitialStore == [i \in 1..Len(Dataset) |-> [k \in 1..Len(Dataset[i]) |-> k]]
NoFrame == [ests |-> <<>>, gts |-> <<>>, crit |-> CritVariants[1], pf |-> Pf, gtIds |-> <<>>]

HInit == /\ cfg = TheCfg /\ frame = NoFrame
         /\ pc = "idle" /\ e1 = <<>> /\ g1 = <<>> /\ rs = <<>> /\ rs2 = <<>> /\ g2 = <<>>
         /\ tp = {} /\ fp = {} /\ fn = {} /\ tn = {} /\ aps = <<>>
         /\ store = InitialStore /\ frameResults = <<>> /\ cur = <<>> /\ scene = <<>> /\ table = <<>>

BeginAdd(i, ev, cv) ==
  /\ pc = "idle" /\ Len(frameResults) < MaxCalls
  /\ frame' = [ests |-> EstVariants[ev], gts |-> Dataset[i], crit |-> CritVariants[cv], pf |-> Pf, gtIds |-> store[i]]
  /\ cur' = [i |-> i, ev |-> ev, cv |-> cv]
  /\ pc' = "filter"
  /\ UNCHANGED <<cfg, e1, g1, rs, rs2, g2, tp, fp, fn, tn, aps, store, frameResults, scene, table>>

\* <<confidence, kind>> of every result of the committed frame that falls into label lb's bucket, in result order
EntriesOf(lb) ==
  LET idx == {k \in 1..Len(rs2) : BucketOf(rs2[k], frame.crit.targets) = lb}
      RECURSIVE Build(_)
      Build(k) == IF k > Len(rs2) THEN <<>>
                  ELSE (IF k \in idx THEN <<<<Ests[rs2[k][1]].conf, EntryKind(rs2[k], lb, cfg.cd)>>>> ELSE <<>>) \o Build(k + 1)
  IN Build(1)

Record == [i |-> cur.i, ev |-> cur.ev, cv |-> cur.cv, ests |-> frame.ests, gts |-> frame.gts, rs2 |-> rs2, g2 |-> g2, tp |-> tp, fp |-> fp, fn |-> fn, tn |-> tn, aps |-> aps,
           entries |-> [k \in 1..Len(cfg.targets) |-> EntriesOf(cfg.targets[k])],
           numgt |-> [k \in 1..Len(cfg.targets) |-> NumGt(g2, cfg.targets[k])]]

\* stable sort by descending confidence of a sequence of <<conf, kind>>
RECURSIVE StableDesc(_)
StableDesc(s) ==
  IF s = <<>> THEN <<>>
  ELSE LET m == CHOOSE k \in 1..Len(s) : /\ \A j \in 1..Len(s) : s[j][1] <= s[k][1]
                                         /\ \A j \in 1..(k - 1) : s[j][1] < s[k][1]
       IN <<s[m]>> \o StableDesc([j \in 1..(Len(s) - 1) |-> IF j < m THEN s[j] ELSE s[j + 1]])
RECURSIVE PoolEntries(_, _, _)
PoolEntries(frs, k, n) == IF n <= 0 THEN <<>> ELSE PoolEntries(frs, k, n - 1) \o frs[n].entries[k]
RECURSIVE PoolGt(_, _, _)
PoolGt(frs, k, n) == IF n <= 0 THEN 0 ELSE PoolGt(frs, k, n - 1) + frs[n].numgt[k]
Kinds(s) == [j \in 1..Len(s) |-> s[j][2]]
SceneAps(frs) ==
  [k \in 1..Len(cfg.targets) |->
     LET r == Kinds(StableDesc(PoolEntries(frs, k, Len(frs))))  g == PoolGt(frs, k, Len(frs))
     IN <<POOL!OpAP(r, g, FALSE), POOL!Unit(g)>>]

Commit ==
  /\ pc = "done"
  /\ frameResults' = Append(frameResults, Record)
  /\ scene' = SceneAps(frameResults')
  /\ table' = Table(frameResults')
  /\ store' = IF AsBuiltAliasedGT THEN [store EXCEPT ![cur.i] = g2] ELSE store
  /\ pc' = "idle"
  /\ UNCHANGED <<cfg, frame, e1, g1, rs, rs2, g2, tp, fp, fn, tn, aps, cur>>

Step == PipelineNext /\ UNCHANGED hvars
DoBegin == \E i \in 1..Len(Dataset), ev \in 1..Len(EstVariants), cv \in 1..Len(CritVariants) : BeginAdd(i, ev, cv)
HNext == DoBegin \/ Step \/ Commit

(* ---- properties (C13) ---------------------------------------------------- *)
\* evaluating never changes the loaded dataset
DatasetUntouched == store = InitialStore
\* same ground-truth frame, estimates and configurations => same result, whatever was evaluated before
SameInputs(a, b) == a.i = b.i /\ a.ev = b.ev /\ a.cv = b.cv
SameOutcome(a, b) == a.rs2 = b.rs2 /\ a.g2 = b.g2 /\ a.tp = b.tp /\ a.fp = b.fp /\ a.fn = b.fn /\ a.tn = b.tn /\ a.aps = b.aps
HistoryIndependence == \A x, y \in 1..Len(frameResults) : SameInputs(frameResults[x], frameResults[y]) => SameOutcome(frameResults[x], frameResults[y])
\* a one-frame scene reproduces that frame's detection score
SameRatio(a, b) == IF a[1] = -1 \/ b[1] = -1 THEN a[1] = b[1] ELSE a[1] * b[2] = b[1] * a[2]
OneFrameScene == (Len(frameResults) = 1 /\ cfg.cd # <<>>) =>
   \A k \in 1..Len(scene) : SameRatio(scene[k], frameResults[1].aps.cd[k])
\* ground-truth counts add up
GtCountsAdd == \A k \in 1..Len(cfg.targets) :
   PoolGt(frameResults, k, Len(frameResults)) = PoolGt(frameResults, k, Len(frameResults) - 1) + (IF Len(frameResults) = 0 THEN 0 ELSE frameResults[Len(frameResults)].numgt[k])
\* with distinct confidences the pooled AP does not depend on the order of the frames (checked for the swap of the last two)
DistinctConf(frs) == \A k \in 1..Len(cfg.targets) :
   LET s == PoolEntries(frs, k, Len(frs)) IN \A a, b \in 1..Len(s) : a # b => s[a][1] # s[b][1]
Swapped(frs) == [j \in 1..Len(frs) |-> IF j = Len(frs) THEN frs[Len(frs) - 1] ELSE IF j = Len(frs) - 1 THEN frs[Len(frs)] ELSE frs[j]]
OrderIndependence == (Len(frameResults) >= 2 /\ DistinctConf(frameResults)) => SceneAps(Swapped(frameResults)) = SceneAps(frameResults)
\* the caller's estimate list is an input: the step machine never writes frame.ests (InputsUntouched of Manager.tla)
\* while a call is being evaluated its inputs (estimates, configurations, the ground truth handed in) are not written
InputsOnlyChangeAtBegin == [][pc # "idle" => UNCHANGED <<cfg, frame>>]_allvars
\* C19 on every committed frame result
AnalyzerCounts == \A n \in 1..Len(frameResults) :
   StatusCounts(frameResults[n]) /\ GtRowsAreCritical(frameResults[n]) /\ GtCountAsBuilt(frameResults[n])
SceneApWithinUnit == \A k \in 1..Len(scene) : scene[k][1] = -1 \/ (0 <= scene[k][1] /\ scene[k][1] <= scene[k][2])
=============================================================================
