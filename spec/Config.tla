------------------------------- MODULE Config -------------------------------
(***************************************************************************)
(* Acceptance of evaluation configurations                                 *)
(* (config/perception_evaluation_config.py, sensing_evaluation_config.py,  *)
(*  _evaluation_config_base.py, metrics_score_config.py,                   *)
(*  result/perception_frame_config.py), written from                       *)
(* docs/en/perception/design.md "Error cases in setting parameters".       *)
(*                                                                         *)
(* An abstract configuration is a record                                   *)
(*  [mgr : "perception" | "sensing", task, x, y, dmax, dmin : BOOLEAN      *)
(*   (parameter given), minPts : BOOLEAN, unknownKey : BOOLEAN (a key that *)
(*   is no parameter of the metrics configuration), nFrameIds : 1..2,      *)
(*   thr : "ok" | "bad" (metric thresholds normalisable?), n : number of   *)
(*   target labels, aux : one per-label filter parameter (min_point_numbers*)
(*   | confidence_threshold | max_matchable_radii | max_x_position) given  *)
(*   in shape auxShape : "list" | "scalar" | "zero" | "singleton" | "empty"*)
(*   | "short" ("list" = the shape used by the other dimensions),          *)
(*   prefix : "ok" | "missing" | "corrupt" (the mandatory label_prefix)]   *)
(***************************************************************************)
EXTENDS Integers, Sequences, FiniteSets

PerceptionTasks == {"detection2d", "tracking2d", "classification2d", "fp_validation2d", "detection", "tracking", "prediction", "fp_validation"}
SensingTasks == {"sensing"}
Tasks3D == {"detection", "tracking", "prediction", "sensing", "fp_validation"}

MetricTasks == {"detection", "tracking", "detection2d", "tracking2d"}

Supported(c) == IF c.mgr = "perception" THEN c.task \in PerceptionTasks ELSE c.task \in SensingTasks

\* exactly one kind of range bound, complete, the other kind absent
ExactlyOneRangeKind(c) ==
  \/ (c.x /\ c.y /\ ~c.dmax /\ ~c.dmin)
  \/ (c.dmax /\ c.dmin /\ ~c.x /\ ~c.y)
NoRange(c) == ~c.x /\ ~c.y /\ ~c.dmax /\ ~c.dmin

Accept(c) ==
  /\ Supported(c)
  \* label_prefix names one of the label families exactly ("ok"); any other value is rejected; it is mandatory for the perception
  \* configuration (design.md) and defaults to autoware for the sensing configuration
  /\ (c.prefix = "ok" \/ (c.mgr = "sensing" /\ c.prefix = "missing"))
  /\ IF c.mgr = "sensing" THEN c.nFrameIds = 1
     ELSE
       /\ c.task # "prediction"                       \* documented as under construction: raises
       \* range bounds are a 3-D matter ("Only 3D"): nothing is demanded of them for 2-D tasks, except that
       \* the two kinds are never given together
       /\ (IF c.task \in Tasks3D THEN ExactlyOneRangeKind(c) /\ c.nFrameIds = 1
           ELSE ~((c.x \/ c.y) /\ (c.dmax \/ c.dmin)))
       /\ (c.task = "detection" => c.minPts)
       \* every per-label filter parameter that is given must be normalisable (scalar / singleton / one value per label)
       /\ c.auxShape \notin {"empty", "short"}
       /\ ~c.unknownKey
       \* metric thresholds are only read by tasks that compute detection / tracking metrics
       /\ (c.task \in MetricTasks => c.thr = "ok")

\* frame-level configurations: [kind : "xy" | "ring" | "both" | "none" | a partial mixture, lenDelta : -1..1, is2d : BOOLEAN]
AcceptCritical(f) ==
  \/ (f.kind \in {"xy", "ring"} /\ f.lenDelta = 0)
  \/ (f.kind = "none" /\ f.is2d)            \* no per-label list is given at all
AcceptPassFail(f) == f.lenDelta = 0
=============================================================================
