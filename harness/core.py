"""Check context: evidence accumulation, violation / known-finding reporting, helpers."""
from __future__ import annotations

import json
import os
import random
import sys
import time

from . import tlc as T

VERIF = T.VERIF
EVID = os.path.join(T.SCRATCH or VERIF, "evidence")
KNOWN = os.path.join(VERIF, "known_findings.json")
LEVEL = "model_checking"


def _jsonable(v, depth=0):
    from .tlaval import ModelValue

    if isinstance(v, (bool, int, float)) or v is None:
        return v
    if isinstance(v, ModelValue):
        return str(v)
    if isinstance(v, str):
        return v
    if isinstance(v, (tuple, list)):
        return [_jsonable(x, depth + 1) for x in v]
    if isinstance(v, (set, frozenset)):
        return sorted((_jsonable(x, depth + 1) for x in v), key=lambda x: json.dumps(x, sort_keys=True, default=str))
    if isinstance(v, dict):
        return {str(k if not isinstance(k, tuple) else list(k)): _jsonable(x, depth + 1) for k, x in v.items()}
    try:
        import numpy as np

        if isinstance(v, np.generic):
            return v.item()
        if isinstance(v, np.ndarray):
            return v.tolist()
    except Exception:
        pass
    return repr(v)


class Ctx:
    def __init__(self, pid: str, tier: str, seed: int):
        self.pid = pid
        self.tier = tier
        self.seed = seed
        self.rng = random.Random((seed * 1000003) ^ hash(pid) & 0xFFFF)
        self.t0 = time.time()
        self.states = 0
        self.transitions = 0
        self.traces = 0  # replayed spec states/behaviours + validated impl traces
        self.evaluations = 0
        self.nontrivial = set()
        self.nontrivial_count = 0
        self.samples = []
        self.assumptions = []
        self.rule = ""
        self.exhaustive = None
        self.violations = []  # dicts: sig, msg, replay
        self.tlc_runs = []
        self.extra = {}
        self.out = os.path.join(T.OUT, pid)
        os.makedirs(self.out, exist_ok=True)
        os.makedirs(EVID, exist_ok=True)

    @property
    def quick(self):
        return self.tier == "quick"

    def log(self, msg):
        if os.environ.get("VERIF_VERBOSE"):
            print("[%6.1fs] %s" % (time.time() - self.t0, msg), flush=True)

    # ---- accumulation
    def add_tlc(self, res: T.TlcResult, name: str, must_take=()):
        self.states += res.distinct
        self.transitions += max(res.generated, res.distinct)
        self.tlc_runs.append(
            {
                "model": name,
                "distinct_states": res.distinct,
                "states_generated": res.generated,
                "depth": res.depth,
                "wall_s": round(res.wall, 2),
                "finished": res.finished,
                "violated": res.violated,
                "actions": {k: list(v) for k, v in sorted(res.coverage.items()) if k in must_take},
            }
        )
        missing = T.never_taken(res, must_take) if res.finished and not res.violated else []
        if missing:
            raise T.TlcError("vacuity: actions never taken in %s: %s" % (name, missing))

    def sample(self, s, limit=4):
        if len(self.samples) < limit:
            self.samples.append(_jsonable(s))

    def nontriv(self, key):
        """count a distinct non-trivial case (key must be hashable / canonical)"""
        self.nontrivial.add(key if not isinstance(key, (dict, list)) else json.dumps(_jsonable(key), sort_keys=True))

    def violation(self, sig: str, msg: str, replay=None):
        """sig: stable signature naming the failing input class / call site"""
        self.violations.append({"sig": sig, "msg": msg, "replay": _jsonable(replay)})

    # ---- finish
    def finish(self) -> int:
        known = {"known": [], "fixed": []}
        if os.path.exists(KNOWN):
            known = json.load(open(KNOWN))
        known_sigs = {}
        for k in known.get("known", []):
            if k["property"] == self.pid:
                known_sigs[k["signature"]] = k
        by_sig = {}
        for v in self.violations:
            by_sig.setdefault(v["sig"], []).append(v)
        rc = 0
        nviol = 0
        for sig, vs in by_sig.items():
            if sig in known_sigs:
                print("KNOWN-FINDING: property=%s %s (%d cases) :: %s" % (self.pid, known_sigs[sig]["what"], len(vs), sig))
                continue
            nviol += len(vs)
            rc = 1
            path = os.path.join(self.out, "violation_%s.json" % "".join(c if c.isalnum() else "_" for c in sig)[:80])
            with open(path, "w") as f:
                json.dump({"property": self.pid, "signature": sig, "cases": vs[:20], "count": len(vs), "seed": self.seed, "tier": self.tier}, f, indent=1)
            print("VIOLATION property=%s replay=%s" % (self.pid, path))
            print("  signature=%s cases=%d first: %s" % (sig, len(vs), vs[0]["msg"][:600]))
        cov = {
            "states": int(self.states),
            "transitions": int(self.transitions),
            "traces_validated_against_impl": int(self.traces),
            "samples": self.samples[:6] or ["(no sample recorded)"],
            "evaluations": int(self.evaluations),
            "distinct_nontrivial": int(len(self.nontrivial) + self.nontrivial_count),
            "rule": self.rule,
            "tlc_runs": self.tlc_runs,
        }
        if self.exhaustive is not None:
            cov["exhaustive"] = bool(self.exhaustive)
        cov.update(self.extra)
        ev = {
            "property_id": self.pid,
            "tier": self.tier,
            "seed": int(self.seed),
            "level": LEVEL,
            "coverage": cov,
            "assumptions": self.assumptions,
            "wall_s": round(time.time() - self.t0, 2),
            "violations": nviol,
        }
        with open(os.path.join(EVID, self.pid + ".json"), "w") as f:
            json.dump(ev, f, indent=1, sort_keys=False)
        print(
            "%s tier=%s seed=%d: TLC states=%d transitions=%d, impl-bound cases=%d, evaluations=%d, nontrivial=%d, violations=%d, %.1fs"
            % (self.pid, self.tier, self.seed, self.states, self.transitions, self.traces, self.evaluations, cov["distinct_nontrivial"], nviol, time.time() - self.t0)
        )
        return rc


def pmap(fn, items, procs=16, chunks=None):
    """map fn over items in worker processes (fork), preserving order; fn must be picklable top-level"""
    import multiprocessing as mp

    items = list(items)
    if len(items) < 64 or procs <= 1:
        return [fn(x) for x in items]
    ctx = mp.get_context("fork")
    with ctx.Pool(procs) as pool:
        return pool.map(fn, items, chunksize=chunks or max(1, len(items) // (procs * 8)))
