"""Operator-level mutation run (complements the agent-seeded semantic changes): single-token mutants of the library sources anchored by the
properties, each applied to a scratch worktree and checked with the quick checks mapped to its file (VERIF_REPO / VERIF_SCRATCH).

  python3 harness/mutate.py plan  <n-per-file> <seed>          -> out/mutants/plan.json
  python3 harness/mutate.py run   <worker> <nworkers> <worktree>  -> appends to out/mutants/results.tsv
  python3 harness/mutate.py suite <worktree>                   -> runs the repository's tests on the undetected mutants (results_suite.tsv)
"""
import io
import json
import os
import random
import subprocess
import sys
import tokenize

V = os.path.dirname(os.path.dirname(os.path.abspath(__file__)))
TAG = os.environ.get("MUT_TAG", "")          # batch tag: plan<TAG>.json / results<TAG>.tsv
SRC = "perception_eval/perception_eval/"
FILES = {
    "evaluation/result/object_result.py": ["C01", "C02", "C11", "C03"],
    "evaluation/matching/object_matching.py": ["C06", "C02", "C07"],
    "evaluation/matching/objects_filter.py": ["C10", "C03"],
    "evaluation/metrics/detection/ap.py": ["C04", "C08"],
    "evaluation/metrics/detection/map.py": ["C04"],
    "evaluation/metrics/detection/tp_metrics.py": ["C09", "C04"],
    "evaluation/metrics/tracking/clear.py": ["C05"],
    "evaluation/metrics/tracking/tracking_metrics_score.py": ["C05"],
    "evaluation/metrics/classification/accuracy.py": ["C11"],
    "evaluation/metrics/classification/classification_metrics_score.py": ["C11"],
    "evaluation/metrics/metrics.py": ["C13", "C11", "C04"],
    "evaluation/result/perception_frame_result.py": ["C03", "C19", "C13"],
    "evaluation/result/perception_pass_fail_result.py": ["C03"],
    "evaluation/sensing/sensing_frame_result.py": ["C12"],
    "evaluation/sensing/sensing_result.py": ["C12"],
    "common/object.py": ["C06", "C09", "C12", "C10"],
    "common/object2d.py": ["C06", "C11"],
    "common/point.py": ["C12"],
    "common/transform.py": ["C18", "C07"],
    "common/schema.py": ["C20"],
    "common/shape.py": ["C20", "C06"],
    "common/evaluation_task.py": ["C20"],
    "common/label.py": ["C14", "C10"],
    "common/threshold.py": ["C15", "C04"],
    "common/geometry.py": ["C17"],
    "common/dataset.py": ["C17", "C16"],
    "common/dataset_utils.py": ["C16"],
    "common/status.py": ["C19", "C03"],
    "config/perception_evaluation_config.py": ["C15"],
    "config/_evaluation_config_base.py": ["C15"],
    "evaluation/result/perception_frame_config.py": ["C15", "C03"],
    "manager/perception_evaluation_manager.py": ["C13", "C03"],
    "manager/_evaluation_manager_base.py": ["C17", "C13"],
    "manager/sensing_evaluation_manager.py": ["C12"],
    "tool/utils.py": ["C19"],
    "tool/perception_analyzer_base.py": ["C19"],
    "tool/perception_analyzer3d.py": ["C19"],
}
OPS = {"<": "<=", "<=": "<", ">": ">=", ">=": ">", "==": "!=", "!=": "==", "+": "-", "-": "+", "*": "/", "and": "or", "or": "and", "True": "False", "False": "True",
       "min": "max", "max": "min", "is": "is not", "in": "not in", "0": "1", "1": "0", "0.0": "1.0", "1.0": "0.0", "any": "all", "all": "any", "continue": "pass",
       "break": "pass", "None": "0", "+=": "-=", "-=": "+="}


def candidates(path):
    src = open(path).read()
    out = []
    depth_doc = False
    toks = list(tokenize.generate_tokens(io.StringIO(src).readline))
    lines = src.split("\n")
    for i, t in enumerate(toks):
        if t.type not in (tokenize.OP, tokenize.NAME, tokenize.NUMBER):
            continue
        s = t.string
        if s not in OPS:
            continue
        line = lines[t.start[0] - 1]
        st = line.strip()
        if st.startswith(("import ", "from ", "def ", "class ", "@", "raise ", "assert ", "logging", "logger", "warnings")) or "->" in line and s in ("-",):
            continue
        if s in ("is", "in"):
            nxt = toks[i + 1].string if i + 1 < len(toks) else ""
            if nxt == "not" or (i > 0 and toks[i - 1].string == "not") or st.startswith("for ") or " for " in line:
                continue
        if s in ("*",) and (line[t.start[1] - 1:t.start[1]] in ("(", ",", " ") and line[t.end[1]:t.end[1] + 1].isalpha() and ("*" + line[t.end[1]:]).startswith("*")) and "(" in line[:t.start[1]] and line[t.start[1] - 1] in "(, ":
            if line[t.start[1] - 1] in "(,":
                continue      # *args
        if s in ("0", "1") and (i > 0 and toks[i - 1].string in ("[", ":", "-")):
            pass
        if s == "-" and i > 0 and toks[i - 1].string in ("(", ",", "=", "[", ":", "return", "==", "<", ">", "<=", ">=", "*", "/", "+"):
            continue          # unary minus
        if s == "None" and ("Optional" in line or "= None" in line or "is None" in line or "is not None" in line or "-> None" in line):
            continue
        if st.startswith(("\"", "'", "#")):
            continue
        if any(w in line for w in ("str_", "color", "label=", "ax.", "fig", "plt.", "print(", "f\"", "f'", "logging.", "warn", "title", "legend", "bins", "cmap", "alpha=", "plot")):
            continue      # presentation code
        out.append((t.start[0], t.start[1], t.end[1], s, OPS[s]))
    return src, out


def plan(n_per_file, seed):
    rng = random.Random(seed)
    repo = "/repo"
    muts = []
    for f, checks in FILES.items():
        path = os.path.join(repo, SRC, f)
        if not os.path.exists(path):
            continue
        src, cands = candidates(path)
        rng.shuffle(cands)
        seen_lines = set()
        k = 0
        for (ln, c0, c1, a, b) in cands:
            if ln in seen_lines:
                continue
            seen_lines.add(ln)
            muts.append(dict(id="m%04d" % len(muts), file=f, line=ln, col=c0, end=c1, old=a, new=b, checks=checks, text=src.split("\n")[ln - 1].strip()[:160]))
            k += 1
            if k >= n_per_file:
                break
    os.makedirs(os.path.join(V, "out", "mutants"), exist_ok=True)
    json.dump(muts, open(os.path.join(V, "out", "mutants", "plan%s.json" % TAG), "w"), indent=1)
    print(len(muts), "mutants planned")


def apply(wt, m):
    path = os.path.join(wt, SRC, m["file"])
    lines = open(path).read().split("\n")
    ln = lines[m["line"] - 1]
    assert ln[m["col"]:m["end"]] == m["old"], (ln, m)
    lines[m["line"] - 1] = ln[:m["col"]] + m["new"] + ln[m["end"]:]
    open(path, "w").write("\n".join(lines))


def revert(wt):
    subprocess.run("git checkout -- .", shell=True, cwd=wt)


def run(worker, nworkers, wt):
    muts = json.load(open(os.path.join(V, "out", "mutants", "plan%s.json" % TAG)))
    res_path = os.path.join(V, "out", "mutants", "results%s.tsv" % TAG)
    done = set()
    if os.path.exists(res_path):
        done = {l.split("\t")[0] for l in open(res_path)}
    for i, m in enumerate(muts):
        if i % nworkers != worker or m["id"] in done:
            continue
        revert(wt)
        apply(wt, m)
        # does it still import?
        rc = subprocess.run("PYTHONPATH=%s/perception_eval /venv/bin/python -W ignore -c 'import perception_eval.manager, perception_eval.tool'" % wt, shell=True,
                            stdout=subprocess.DEVNULL, stderr=subprocess.DEVNULL).returncode
        verdict, by = "undetected", []
        if rc != 0:
            verdict = "does-not-import"
        else:
            for c in m["checks"][:2]:
                env = dict(os.environ, VERIF_REPO=wt, VERIF_SCRATCH="/tmp/mut_scratch_%d" % worker, TQDM_DISABLE="1")
                p = subprocess.run("./check %s --tier quick" % c, shell=True, cwd=V, env=env, stdout=subprocess.PIPE, stderr=subprocess.STDOUT, text=True)
                if p.returncode == 1 and "VIOLATION property=" in p.stdout:
                    verdict = "detected"
                    by.append(c)
                    break
                if p.returncode == 2:
                    by.append(c + ":machinery")
        revert(wt)
        with open(res_path, "a") as f:
            f.write("\t".join([m["id"], m["file"], str(m["line"]), m["old"] + "->" + m["new"], verdict, ",".join(by), m["text"]]) + "\n")


def suite(wt):
    muts = {m["id"]: m for m in json.load(open(os.path.join(V, "out", "mutants", "plan%s.json" % TAG)))}
    res = [l.rstrip("\n").split("\t") for l in open(os.path.join(V, "out", "mutants", "results%s.tsv" % TAG))]
    outp = os.path.join(V, "out", "mutants", "results_suite%s.tsv" % TAG)
    done = {l.split("\t")[0] for l in open(outp)} if os.path.exists(outp) else set()
    for r in res:
        if r[4] != "undetected" or r[0] in done:
            continue
        m = muts[r[0]]
        revert(wt)
        apply(wt, m)
        p = subprocess.run("PYTHONPATH=%s/perception_eval /venv/bin/python -m pytest -q -p no:cacheprovider --timeout=900 -x 2>&1 | tail -1" % wt, shell=True, cwd=wt,
                           stdout=subprocess.PIPE, text=True)
        revert(wt)
        with open(outp, "a") as f:
            f.write("\t".join(r[:4] + ["suite-passes" if " passed" in p.stdout and "failed" not in p.stdout and "error" not in p.stdout.lower() else "suite-fails", r[6]]) + "\n")


if __name__ == "__main__":
    if sys.argv[1] == "plan":
        plan(int(sys.argv[2]), int(sys.argv[3]))
    elif sys.argv[1] == "run":
        run(int(sys.argv[2]), int(sys.argv[3]), sys.argv[4])
    elif sys.argv[1] == "suite":
        suite(sys.argv[2])
