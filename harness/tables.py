"""Documented label tables (docs/en/perception/label.md), pinned here -- never read from /repo.
Names the code registers beyond these are subject to the laws only (totality, case, canonical name, merge image)."""

AUTOWARE_PLAIN = {
    "car": ["car", "vehicle.car", "vehicle.construction", "vehicle.emergency (ambulance & police)", "vehicle.police", "vehicle.fire", "vehicle.ambulance"],
    "truck": ["truck", "vehicle.truck", "trailer", "vehicle.trailer"],
    "bus": ["bus", "vehicle.bus", "vehicle.bus (bendy & rigid)"],
    "bicycle": ["bicycle", "vehicle.bicycle"],
    "motorbike": ["motorbike", "motorcycle", "vehicle.motorcycle"],
    "pedestrian": ["pedestrian", "stroller", "pedestrian.adult", "pedestrian.child", "pedestrian.construction_worker", "pedestrian.personal_mobility",
                   "pedestrian.police_officer", "pedestrian.stroller", "pedestrian.wheelchair"],
    "unknown": ["unknown", "animal", "movable_object.barrier", "movable_object.debris", "movable_object.pushable_pullable", "movable_object.trafficcone",
                "movable_object.traffic_cone", "static_object.bicycle rack", "static_object.bollard"],
}
MERGE = {"truck": "car", "bus": "car", "motorbike": "bicycle"}

# traffic lights: only documented names whose documented label exists as an enum member (the table in the docs is older than the enum)
TL_DETECTION = {
    "traffic_light": ["traffic_light", "green", "red", "yellow", "red_straight", "red_left", "red_right", "red_right_diagonal", "yellow_right"],
    "unknown": ["unknown"],
}
TL_CLASSIFICATION = {k: [k] for k in ["green", "red", "yellow", "red_straight", "red_left", "red_right", "red_right_diagonal", "yellow_right", "unknown"]}


def doc_entries():
    """list of (prefix, classification?, merge?, name, label)"""
    out = []
    for lab, names in AUTOWARE_PLAIN.items():
        for n in names:
            out.append(("autoware", False, False, n, lab))
            out.append(("autoware", False, True, n, MERGE.get(lab, lab)))
    for merge in (False, True):
        for lab, names in TL_DETECTION.items():
            for n in names:
                out.append(("traffic_light", False, merge, n, lab))
        for lab, names in TL_CLASSIFICATION.items():
            for n in names:
                out.append(("traffic_light", True, merge, n, lab))
    return out
