"""Writer of T4 / nuScenes-format dataset directories (version dir `annotation`, 13 json tables) from an abstract dataset."""
from __future__ import annotations

import json
import math
import os

ATTR_NAME = "verif.attribute"
SIZES = {1: (2.0, 4.0, 1.5), 2: (0.6, 0.7, 1.7), 3: (2.5, 10.0, 3.0)}   # (w, l, h)
VIS_NAMES = ["none", "partial", "most", "full"]
VIS_ALIAS = {"none": "v0-40", "partial": "v40-60", "most": "v60-80", "full": "v80-100"}
BASE_US = 1_600_000_000_000_000


def quat(yaw):
    return [math.cos(yaw / 2.0), 0.0, 0.0, math.sin(yaw / 2.0)]


def write(root, ds, *, lidar_channel="LIDAR_TOP", vis_convention="names", time_unit_us=500_000):
    """ds: dict(samples=[{time, ego:{x,y,q}}], cats={inst: category}, anns=[{sample(1-based), inst, x,y,z, a (units of 15 deg), size, pts, vis, attr}])"""
    ann_dir = os.path.join(root, "annotation")
    os.makedirs(ann_dir, exist_ok=True)
    n = len(ds["samples"])
    cats = sorted(set(ds["cats"].values()))
    T = {}
    T["category"] = [{"token": "cat-%d" % i, "name": c, "description": ""} for i, c in enumerate(cats)]
    cat_tok = {c: "cat-%d" % i for i, c in enumerate(cats)}
    T["attribute"] = [{"token": "attr-0", "name": ATTR_NAME, "description": ""}, {"token": "attr-1", "name": "other.attribute", "description": ""}]
    if vis_convention == "names":
        T["visibility"] = [{"token": "vis-%s" % v, "level": v, "description": ""} for v in VIS_NAMES]
    else:
        T["visibility"] = [{"token": "vis-%s" % v, "level": VIS_ALIAS[v], "description": ""} for v in VIS_NAMES]
    T["sensor"] = [{"token": "sensor-lidar", "channel": lidar_channel, "modality": "lidar"}, {"token": "sensor-cam", "channel": "CAM_FRONT", "modality": "camera"},
                   {"token": "sensor-radar", "channel": "RADAR_BACK", "modality": "radar"}]
    T["calibrated_sensor"] = [
        {"token": "cs-lidar", "sensor_token": "sensor-lidar", "translation": [0.0, 0.0, 0.0], "rotation": [1.0, 0.0, 0.0, 0.0], "camera_intrinsic": []},
        {"token": "cs-cam", "sensor_token": "sensor-cam", "translation": [1.5, 0.0, 1.2], "rotation": quat(0.1), "camera_intrinsic": [[1000.0, 0.0, 640.0], [0.0, 1000.0, 360.0], [0.0, 0.0, 1.0]]},
        {"token": "cs-radar", "sensor_token": "sensor-radar", "translation": [-1.0, 0.0, 0.5], "rotation": quat(math.pi), "camera_intrinsic": []},
    ]
    T["log"] = [{"token": "log-0", "logfile": "verif", "vehicle": "v", "date_captured": "2020-01-01", "location": "lattice"}]
    T["map"] = [{"token": "map-0", "log_tokens": ["log-0"], "category": "semantic_prior", "filename": ""}]
    T["scene"] = [{"token": "scene-0", "log_token": "log-0", "nbr_samples": n, "first_sample_token": "sample-1", "last_sample_token": "sample-%d" % n,
                   "name": "scene-verif", "description": ""}]
    T["sample"], T["ego_pose"], T["sample_data"] = [], [], []
    for k, s in enumerate(ds["samples"], 1):
        ts = BASE_US + int(s["time"]) * time_unit_us
        T["sample"].append({"token": "sample-%d" % k, "timestamp": ts, "prev": "sample-%d" % (k - 1) if k > 1 else "", "next": "sample-%d" % (k + 1) if k < n else "",
                            "scene_token": "scene-0"})
        e = s["ego"]
        rot = list(e["quat"]) if "quat" in e else quat(e.get("yaw", e.get("q", 0) * math.pi / 2))
        # a key frame's own record is stamped when ITS sensor fired: close to the sample's time, not equal to it (the schema allows that)
        sd_ts = {"lidar": ts - 3721 - 7 * k, "cam": ts + 12345 + k}
        T["ego_pose"].append({"token": "ego-%d" % k, "timestamp": sd_ts["lidar"], "rotation": rot, "translation": [float(e["x"]), float(e["y"]), float(e.get("z", 0.0))]})
        for kind, cs in (("lidar", "cs-lidar"), ("cam", "cs-cam")):
            T["sample_data"].append({"token": "sd-%s-%d" % (kind, k), "sample_token": "sample-%d" % k, "ego_pose_token": "ego-%d" % k, "calibrated_sensor_token": cs,
                                     "timestamp": sd_ts[kind], "fileformat": "pcd" if kind == "lidar" else "jpg", "is_key_frame": True, "height": 0 if kind == "lidar" else 720,
                                     "width": 0 if kind == "lidar" else 1280, "filename": "data/%s/%d.%s" % (kind, k, "pcd.bin" if kind == "lidar" else "jpg"),
                                     "prev": "sd-%s-%d" % (kind, k - 1) if k > 1 else "", "next": "sd-%s-%d" % (kind, k + 1) if k < n else ""})
    anns = sorted(ds["anns"], key=lambda a: (a["inst"], a["sample"]))
    tok = lambda a: "ann-%d-%d" % (a["sample"], a["inst"])
    T["sample_annotation"] = []
    by_inst = {}
    for a in anns:
        by_inst.setdefault(a["inst"], []).append(a)
    for inst, lst in by_inst.items():
        for j, a in enumerate(lst):
            yaw = a["yaw"] if "yaw" in a else a["a"] * 2 * math.pi / 24
            T["sample_annotation"].append({
                "token": tok(a), "sample_token": "sample-%d" % a["sample"], "instance_token": "inst-%d" % inst, "visibility_token": "vis-%s" % a["vis"],
                "attribute_tokens": ["attr-0"] if a["attr"] else [], "translation": [float(a["x"]), float(a["y"]), float(a["z"])],
                "size": list(a["size_wlh"]) if "size_wlh" in a else list(SIZES[a["size"]]), "rotation": quat(yaw), "prev": tok(lst[j - 1]) if j > 0 else "",
                "next": tok(lst[j + 1]) if j + 1 < len(lst) else "", "num_lidar_pts": int(a["pts"]),
                "num_radar_pts": int(a.get("radar_pts", (3 * int(a["pts"]) + int(a["inst"])) % 4 + 1))})   # never read by the loader (lidar count only)
    T["instance"] = []
    for inst, c in sorted(ds["cats"].items()):
        lst = by_inst.get(inst, [])
        if not lst:
            continue
        T["instance"].append({"token": "inst-%d" % inst, "category_token": cat_tok[c], "nbr_annotations": len(lst), "first_annotation_token": tok(lst[0]),
                              "last_annotation_token": tok(lst[-1])})
    for name, rows in T.items():
        with open(os.path.join(ann_dir, name + ".json"), "w") as f:
            json.dump(rows, f)
    return root


def write2d(root, ds, *, time_unit_us=500_000):
    """2-D (nuImages-style) dataset: ds = dict(samples=[{time, cams:[channel values such as 'cam_front']}], insts={inst: {cat, reg}},
    anns=[{sample(1-based), cam, inst, box:[x0,y0,x1,y1] in tenths of a pixel, attr}] in object_ann table order); all cameras of `ds['cameras']`
    are registered as sensors, a camera has sample_data in a sample only when listed in that sample's `cams`."""
    ann_dir = os.path.join(root, "annotation")
    os.makedirs(ann_dir, exist_ok=True)
    n = len(ds["samples"])
    cats = sorted(set(v["cat"] for v in ds["insts"].values()))
    T = {}
    T["category"] = [{"token": "cat-%d" % i, "name": c, "description": ""} for i, c in enumerate(cats)]
    cat_tok = {c: "cat-%d" % i for i, c in enumerate(cats)}
    T["attribute"] = [{"token": "attr-0", "name": ATTR_NAME, "description": ""}, {"token": "attr-1", "name": "other.attribute", "description": ""}]
    T["visibility"] = [{"token": "vis-%s" % v, "level": v, "description": ""} for v in VIS_NAMES]
    cams = list(ds["cameras"])
    T["sensor"] = [{"token": "sensor-lidar", "channel": "LIDAR_TOP", "modality": "lidar"}, {"token": "sensor-radar", "channel": "RADAR_BACK", "modality": "radar"}] + [
        {"token": "sensor-" + c, "channel": c.upper(), "modality": "camera"} for c in cams]
    T["calibrated_sensor"] = [{"token": "cs-lidar", "sensor_token": "sensor-lidar", "translation": [0.0, 0.0, 0.0], "rotation": [1.0, 0.0, 0.0, 0.0], "camera_intrinsic": []},
                              {"token": "cs-radar", "sensor_token": "sensor-radar", "translation": [-1.0, 0.0, 0.5], "rotation": quat(math.pi), "camera_intrinsic": []}] + [
        {"token": "cs-" + c, "sensor_token": "sensor-" + c, "translation": [1.5, 0.1 * i, 1.2], "rotation": quat(0.3 * i),
         "camera_intrinsic": [[1000.0, 0.0, 640.0], [0.0, 1000.0, 360.0], [0.0, 0.0, 1.0]]} for i, c in enumerate(cams)]
    T["log"] = [{"token": "log-0", "logfile": "verif", "vehicle": "v", "date_captured": "2020-01-01", "location": "lattice"}]
    T["map"] = [{"token": "map-0", "log_tokens": ["log-0"], "category": "semantic_prior", "filename": ""}]
    T["scene"] = [{"token": "scene-0", "log_token": "log-0", "nbr_samples": n, "first_sample_token": "sample-1", "last_sample_token": "sample-%d" % n,
                   "name": "scene-verif", "description": "TLR, regulatory_element"}]
    T["sample"], T["ego_pose"], T["sample_data"] = [], [], []
    for k, s in enumerate(ds["samples"], 1):
        ts = BASE_US + int(s["time"]) * time_unit_us
        T["sample"].append({"token": "sample-%d" % k, "timestamp": ts, "prev": "sample-%d" % (k - 1) if k > 1 else "", "next": "sample-%d" % (k + 1) if k < n else "",
                            "scene_token": "scene-0"})
        T["ego_pose"].append({"token": "ego-%d" % k, "timestamp": ts, "rotation": quat(0.2 * k), "translation": [3.0 * k, 1.0, 0.0]})
        for c in s["cams"]:
            T["sample_data"].append({"token": "sd-%s-%d" % (c, k), "sample_token": "sample-%d" % k, "ego_pose_token": "ego-%d" % k, "calibrated_sensor_token": "cs-" + c,
                                     "timestamp": ts, "fileformat": "jpg", "is_key_frame": True, "height": 720, "width": 1280, "filename": "data/%s/%d.jpg" % (c.upper(), k),
                                     "prev": "", "next": ""})
    T["sample_annotation"] = []
    T["instance"] = [{"token": "inst-%d" % i, "category_token": cat_tok[v["cat"]], "instance_name": "traffic_light::%d" % v["reg"], "nbr_annotations": 0,
                      "first_annotation_token": "", "last_annotation_token": ""} for i, v in sorted(ds["insts"].items())]
    T["object_ann"] = [{"token": "oa-%d" % j, "sample_data_token": "sd-%s-%d" % (a["cam"], a["sample"]), "instance_token": "inst-%d" % a["inst"],
                        "category_token": cat_tok[ds["insts"][a["inst"]]["cat"]], "attribute_tokens": ["attr-0"] if a["attr"] else [],
                        "bbox": [v / 10.0 for v in a["box"]], "mask": None} for j, a in enumerate(ds["anns"])]
    T["surface_ann"] = []
    for name, rows in T.items():
        with open(os.path.join(ann_dir, name + ".json"), "w") as f:
            json.dump(rows, f)
    return root
