"""Regenerate /verif/MANIFEST.json from the table below (python3 harness/gen_manifest.py)."""
import json
import os

V = os.path.dirname(os.path.dirname(os.path.abspath(__file__)))

MC = "model_checking"
CHECKS = {
    "C01": dict(
        engine="tla-matching",
        text="TLC model-checks Matching.tla (the two-stage greedy matcher as an action system) over every abstract score table up to a bound with "
        "one-to-one / valid-pairs-only / completeness / inputs-untouched as invariants; every lattice scene TLC enumerates is replayed through the real "
        "get_object_results (3-D boxes and 2-D ROIs, four modes, thresholds, frames, fp-validation) and must yield an outcome of the specification; "
        "random float scenes up to 30x30 objects are recorded as traces and validated by TLC against the same module.",
        note="exact on lattice scenes of equally sized aligned boxes; float scenes bound through ordinal abstraction (dense score ranks); pair scores "
        "themselves are C06's business; trace driver keeps a 1e-9 margin from threshold/score ties it does not intend",
        design="DESIGN.md 5 (C01)",
        technique="TLA+ spec + TLC exhaustive; spec->code replay of every dumped terminal state; code->spec trace validation",
    ),
    "C04": dict(
        engine="tla-ap",
        text="TLC checks on Ap.tla, for every ranking up to length N over {TP(w), FP, ignored} and every ground-truth count, that the operational AP/APH (the implementation's cumulative sums + backward envelope) equals the declarative area under the interpolated precision-recall curve, bounds 0<=APH<=AP<=1 under one-to-one matching, AP=1 / AP=0 cases; every enumerated (ranking, g) is realised as real object results and Ap.tp_list/fp_list/ap, APH and Map compared with the exact rationals; random buckets up to 300 results and multi-label Maps are validated as traces by TLC (Trace_Ap.tla) in fixed point.",
        note="exact rationals for rankings <= 6 (thorough) / 5 (quick) with heading weights in {0, 1/2, 1}; long rankings in 1e-6 fixed point with a stated error bound; heading weight values themselves are C09; manager-level AP is checked in C03/C07/C13",
        design="DESIGN.md 5 (C04)",
        technique="TLA+ spec + TLC exhaustive; spec->code replay of every dumped state; code->spec trace validation",
    ),
    "C05": dict(
        engine="tla-clear",
        text="Clear.tla models CLEAR as a state machine consuming frames (carry-over / fresh / switched TP, FP, ignored). TLC enumerates all "
        "histories over small id alphabets and checks accounting, the switch definition, renaming invariance under every id permutation, MOTA "
        "range and the perfect / new-id / identity-exchange scenarios; every scored history is replayed through the real CLEAR class (shuffled "
        "result order, distance and IoU modes) comparing tp, fp, id_switch, predict_num, tp_matching_score, MOTA, MOTP; random long histories "
        "(switches, fragmentations, swaps; two label buckets; TrackingMetricsScore totals) are validated as traces by TLC.",
        note="ids unique within a frame; the implementation's carry-over rule (TP credited with the previous frame's score) is modelled as built; "
        "trace scores in 1e-4 fixed point with a 1e-3 margin from the threshold",
        design="DESIGN.md 5 (C05)",
        technique="TLA+ spec + TLC exhaustive + simulation; spec->code replay of every scored history; code->spec trace validation",
    ),
    "C03": dict(
        engine="tla-manager",
        text="Manager.tla is the add_frame_result step machine (manager filter, two-stage matching via INSTANCE Matching, uuid filter, critical filter, "
        "pass/fail classification, AP). TLC checks results = TP+FP, ground-truth conservation (TP / FN / TN / matched FP exactly once), TP "
        "justification, nothing-outside-critical and AP <= 1 in every state over families of configurations x lattice scenes; every terminated "
        "state is replayed through a real PerceptionEvaluationManager with objects stored in base_link and in map under two ego poses and the "
        "object results, critical ground truth, the four pass/fail lists, get_num_success/fail and AP rows are compared with the specification. Executions of the real manager on random centimetre-lattice scenes of up to 8 x 8 objects (both storage frames) are recorded step by step and validated by TLC against the same machine (Trace_Pipeline.tla).",
        note="lattice scenes (equal aligned boxes, bounds in odd half units); frame configs use the manager's target list; float scenes: see DESIGN (engine T for the pipeline)",
        design="DESIGN.md 5 (C03)",
        technique="TLA+ spec + TLC (exhaustive slices + RandomSubset sampling of the product); spec->code replay in two frame renderings",
    ),
    "C07": dict(
        engine="tla-manager",
        text="The specification (Manager.tla) is frame-free: scenes are ego-relative. Every scene TLC enumerates is executed by the real manager with "
        "objects stored in base_link and stored in map (ego poses: quarter turn + km translation; yaw 0.7 rad); map executions must be behaviours "
        "of the same specification, and where the specification admits one outcome the two executions are compared field by field (filtering, "
        "matching, TP/FP/FN/TN, AP, APH). Random pairs of different extent / heading are scored in both storage frames and validated by Trace_Scores.tla; executions on random 8 x 8 scenes stored in map are validated by Trace_Pipeline.tla; a lookup-then-evaluate scenario with a moving ego compares both storage frames.",
        note="no decision within tolerance of its boundary (lattice design); tracking metrics across frames are covered by C05/C13 drivers",
        design="DESIGN.md 5 (C07)",
        technique="TLA+ spec + TLC; spec->code replay in ego and map renderings + direct differential comparison",
    ),
    "C06": dict(
        engine="tla-lattice",
        text="Lattice.tla computes the four matching scores exactly on integer lattices (IoU as rationals by interval overlap in the boxes' common frame, "
        "squared centre distance, the admissible plane distances under corner-ranking ties, ROI IoU / floor-centre distance) and TLC checks bounds, "
        "symmetry, identical -> 1, disjoint -> 0, IoU3 <= IoU2, plane >= 0 over sampled and structured (identical / turned / nested / shifted) "
        "box pairs and all ROI pairs; each pair is realised as real objects as is, rotated about the ego by 3-4-5 angles and rotated + translated, "
        "and CenterDistance / PlaneDistance / IOU2d / IOU3d values, result attributes, footprint, area, volume are compared with the exact values "
        "to 1e-9. Random float pairs (any relative yaw, size ratio to 1:50) under random rigid motions are validated as traces for the relational laws.",
        note="exact for aligned / nested / disjoint / identical pairs under lattice rigid motions; for partial overlap at a non-right relative yaw only "
        "bounds, symmetry and invariance are decided (DESIGN.md 8); one known finding (GEOS robustness on shared collinear edges)",
        design="DESIGN.md 5 (C06)",
        technique="TLA+ spec + TLC; spec->code replay under rigid motions; code->spec trace validation of relational laws",
    ),
    "C08": dict(
        engine="tla-ap",
        text="MC_Monotone.tla derives, for every ranking of results annotated with the rung of a threshold ladder from which each pair becomes a TP, "
        "the ranking of Ap.tla at every rung; TLC checks that TP sets only grow and AP / APH never decrease along the ladder for all rankings up to "
        "length 3-4, and the lemma that promoting one FP of any ranking to a TP never lowers the declarative AP / APH. Every enumerated case is "
        "realised as real object results and get_positive_objects, get_negative_objects and Ap are evaluated at each threshold and compared with "
        "the specification per rung and for monotonicity; random result sets with random 5-rung ladders in all four matching modes are validated "
        "as traces (TP subset chain, FN counts, AP, APH), and so are ladders of per-label threshold LISTS over three labels, judged through "
        "get_positive_objects / get_negative_objects / Map and through PassFailResult with its own label order.",
        note="ordinary ground truth only; exact for centre-distance ladders on constructed results, all modes in traces with a 1e-6 margin from rungs",
        design="DESIGN.md 5 (C08)",
        technique="TLA+ spec + TLC exhaustive; spec->code replay; code->spec trace validation",
    ),
    "C09": dict(
        engine="tla-heading",
        text="Heading.tla defines the minimal yaw difference D on an angle grid Z/M, the APH weight (M/2 - D)/(M/2) and the admissible signed yaw "
        "errors. TLC checks symmetry, 1 for equal / 0 for opposite headings, invariance under a common rotation and the range for all 24^3 "
        "(estimate, ground truth, rotation) triples on the 15-degree grid; every triple is realised as real objects in base_link and in map (ego yaw "
        "= the rotation), with all quaternion sign combinations, and TPMetricsAph.get_value (both argument orders), Ap.tp_list with TPMetricsAph "
        "and heading_error are compared exactly; random yaws with small roll/pitch and random ego poses are validated as traces by TLC in 0.1 mrad "
        "fixed point.",
        note="exact on the 15-degree grid; continuous yaws within 1.3e-4 (weight) / 0.4 mrad (error); tilt uses pyquaternion's yaw_pitch_roll convention",
        design="DESIGN.md 5 (C09)",
        technique="TLA+ spec + TLC exhaustive; spec->code replay of every state; code->spec trace validation",
    ),
    "C10": dict(
        engine="tla-filter",
        text="Filter.tla specifies _is_target_object / filter_objects / filter_object_results with the documented relaxations. TLC enumerates every "
        "object of a position x label x attribute x confidence x points x uuid grid as estimate and as ground truth against x/y, ring and "
        "label-only parameter sets and short lists, checking kept-exactly, order, idempotence, widening monotonicity, FP-always-passes and "
        "result-needs-both; every state is replayed through the real functions in base_link (with/without transforms), map (with ego pose) and 2-D "
        "renderings, and the manager's _filter_objects is compared on the C03 scenes; the uuid criterion is also replayed where the sensing manager "
        "applies it (frame configuration vs evaluation configuration).",
        note="integer coordinates against odd half-unit bounds; mean bounds with sum = 2 mod 4 (no boundary hits)",
        design="DESIGN.md 5 (C10)",
        technique="TLA+ spec + TLC exhaustive; spec->code replay of every evaluated state",
    ),
    "C11": dict(
        engine="tla-idmatching",
        text="IdMatching.tla specifies identity-based pairing of ROI-less 2-D objects: generic objects pair iff same uuid and camera; traffic lights "
        "pair by equal label (and uuid when uuid-first) then by uuid, as the SET of admissible outcomes of the label stage; scores as exact "
        "rationals. TLC checks same-camera, each-object-once, label-stage maximality, scores within [0,1] and the perfect case over sampled inputs "
        "(<= 3 objects per side, 3 uuids, 3 labels, 3 cameras incl. cam_traffic_light, both uuid-first settings); each state is replayed through "
        "get_object_results(CLASSIFICATION2D), ClassificationAccuracy and ClassificationMetricsScore._summarize (the two ordinary labels of the "
        "specification stand for every neighbouring pair of declared traffic-light labels). The same inputs are run through PerceptionEvaluationManager in the classification2d task (frame pairs, scores, two-frame scene).",
        note="uuids unique per side and camera; undefined scores may be any non-finite value (the library mixes inf and nan)",
        design="DESIGN.md 5 (C11)",
        technique="TLA+ spec + TLC; spec->code replay of every state",
    ),
    "C12": dict(
        engine="tla-sensing",
        text="Sensing.tla decides point-in-scaled-rotated-box exactly on a lattice (Pythagorean headings, rational scales, integer cross products "
        "for polygonal prisms) and classifies objects (warning / detected / not detected) and non-detection failure points. TLC checks the "
        "inside / boundary / outside partition and scale monotonicity for every point of a 13x13x5 block against every box of the slice and "
        "evaluates sampled frames; every state is replayed through crop_pointcloud, DynamicObject.crop_pointcloud, get_inside_pointcloud_num, "
        "SensingFrameResult.evaluate_frame and SensingEvaluationManager.add_frame_result, comparing index sets modulo boundary points; random "
        "float boxes with clouds up to 5000 points (and dense 60k-point clouds through the per-object sensing result) are validated as traces.",
        note="points exactly on a vertical face / polygon edge are boundary (nothing demanded); frame objects sit at integer distances so the "
        "distance-dependent scale is rational",
        design="DESIGN.md 5 (C12)",
        technique="TLA+ spec + TLC; spec->code replay of every state; code->spec trace validation",
    ),
    "C13": dict(
        engine="tla-manager",
        text="MC_ManagerHist.tla is the manager as a state machine over call histories: BeginAdd(frame, estimates, critical filter) -> the step "
        "machine of Manager.tla -> Commit, with the ground-truth store, the list of frame results and the pooled scene AP as state. TLC explores "
        "every call sequence up to depth 2-3 over two worlds and checks dataset-untouched, same-inputs-same-outcome (history independence), "
        "one-frame scene = frame score, ground-truth counts add, order independence of pooled AP under distinct confidences; the as-built aliasing "
        "switch must yield TLC's counterexample. Every reached history is replayed on one real manager using the manager's own ground-truth frame "
        "objects, comparing each frame result, the caller's list, ground_truth_frames after every call and get_scene_result. MetricsShape.tla is the "
        "life of one MetricsScore (families per task, one score per threshold row in mode order, ground-truth count added exactly once); every "
        "terminated state is replayed through a real manager at frame and scene level.",
        note="tie-free worlds so each call has one outcome; detection task (tracking predecessor: C05 drivers); depth 2 (quick) / 3 (thorough)",
        design="DESIGN.md 5 (C13)",
        technique="TLA+ state machine over call histories + TLC exhaustive; spec->code replay of every history",
    ),
    "C14": dict(
        engine="tla-labels",
        text="LabelConv.tla holds the documented name tables (pinned from docs/en/perception/label.md) and the conversion laws. TLC checks the pinned "
        "tables are functional and that the merged table is the merged image of the plain one; for both label families x every evaluation task "
        "(enum and string spelling) x merge on/off every registered / documented / canonical / random name is converted through convert_label and "
        "convert_name in four case variants, every producible label's canonical name is converted back, merged vs unmerged results and target-list "
        "resolution (set_target_lists, PerceptionEvaluationConfig.target_labels) are recorded, and TLC validates every event. Exhaustive over names.",
        note="names registered by the code but not documented are subject to the laws only; documentation drift (stale names in the docs) is not pinned",
        design="DESIGN.md 5 (C14)",
        technique="TLA+ spec + TLC (table laws) + code->spec trace validation of every conversion",
    ),
    "C15": dict(
        engine="tla-config",
        text="Thresholds.tla defines Normalize(tree, n, nest) on tagged value trees from the documentation (broadcast of scalars/singletons, flat list "
        "reading in nested mode, rejection of malformed shapes and non-numeric leaves) and Config.tla the documented acceptance rule of evaluation "
        "and frame configurations (range kinds, mandatory parameters, label_prefix present and exact, unknown keys). TLC enumerates every tree up to a bound x n x mode checking shape, idempotence, no-pad-no-truncate and "
        "rejection, and every abstract configuration; each state is realised as a Python value / dictionary and fed to set_thresholds, "
        "PerceptionEvaluationConfig, SensingEvaluationConfig, CriticalObjectFilterConfig and PerceptionPassFailConfig; values, rejections and the "
        "lengths of all per-label lists are compared. Exhaustive within the bound.",
        note="trees: depth <= 2, list length <= 2 (quick) / 3 (thorough), leaves {1, 2, non-numeric}; any exception counts as rejection; one known finding (unknown key accepted)",
        design="DESIGN.md 5 (C15)",
        technique="TLA+ spec + TLC exhaustive; spec->code replay of every enumerated state",
    ),
    "C16": dict(
        engine="tla-dataset",
        text="Dataset.tla specifies Load(dataset, frame id, task, merge): one frame per sample in table order with the sample's time, one object per "
        "annotation (instance id, converted label, attributes, size, lidar points, visibility level), map pose = annotated pose, ego pose = "
        "inverse ego pose applied (exact on lattice poses), tracked past positions, stored ego->map transform. TLC samples small datasets and "
        "checks frame / object counts and ego<->map consistency; each dataset is written as a T4/nuScenes directory (13 json tables; LIDAR_TOP or "
        "LIDAR_CONCAT; visibility by level name or v0-40 alias) and loaded by the real load_all_datasets for detection / tracking / sensing x "
        "base_link / map x merge, compared field by field; random float datasets (5-20 samples) are loaded in both frames and checked for "
        "structure and ego->map consistency. The 2-D reading of the tables (Dataset2D.tla: cameras with / without data, object_ann in table order, ROI truncation, traffic-light regulatory-element merging) is model-checked and replayed on generated nuImages tables for the three 2-D tasks.",
        note="lidar calibrated at the ego origin; lattice poses exact to 1e-9, random poses to 1e-6; 3-D loader only (2-D nuImages loading not modelled)",
        design="DESIGN.md 5 (C16)",
        technique="TLA+ spec + TLC; spec->code replay through generated dataset directories",
    ),
    "C17": dict(
        engine="tla-timeline",
        text="Timeline.tla defines Lookup (nearest frame within tolerance, ties either) and InterpLookup (neighbours before / after within tolerance, "
        "linear position, shortest-arc yaw, objects of one neighbour kept, ego pose interpolated) with exact rationals. TLC checks "
        "nearest-within-tolerance, reproduction at a neighbour's timestamp and that the interpolating lookup answers whenever the plain one does over "
        "sampled frame lists x all query times x tolerances; every state is replayed through get_now_frame, get_interpolated_now_frame and "
        "manager.get_ground_truth_now_frame with frames stored in map and in base_link (frame identity, stamped time, object and ego poses in "
        "global coordinates); random microsecond timelines with float poses are validated as traces in fixed point.",
        note="lattice poses (integer positions, 15-degree yaw grid, quarter-turn ego yaw); antipodal yaw pairs excluded; interpolated poses compared globally",
        design="DESIGN.md 5 (C17)",
        technique="TLA+ spec + TLC; spec->code replay of every state; code->spec trace validation",
    ),
    "C18": dict(
        engine="tla-transforms",
        text="Transforms.tla models rigid transforms between named frames on the exact group Z^3 x| O_h+ and the transform registry as a state "
        "machine (Register / Query -> direct, inverse, identity, KeyError). TLC checks inverse round trip on poses, involution, labels, composition "
        "= two steps, associativity, identity with the inverse over sampled pairs/triples and enumerates all registry behaviours to depth 3-4; "
        "every pair is replayed on real HomogeneousMatrix objects built from q, -q, a 3x3 and a 4x4 matrix (transform, dot, inv, transform(matrix), "
        "ValueError on mismatched frames) and every registry behaviour on a real TransformDict with six key spellings; random axis/angle rotations "
        "are validated as traces through residuals.",
        note="exact on the 24 cube rotations with integer translations; arbitrary rotations by residuals (2e-6 on 1e3 m)",
        design="DESIGN.md 5 (C18)",
        technique="TLA+ spec + TLC (laws + registry state machine); spec->code replay; code->spec trace validation",
    ),
    "C19": dict(
        engine="tla-manager",
        text="Analyzer.tla derives the analysis table from committed frame results (one row pair per TP / FP / TN / FN item, counts, position errors and "
        "confusion counts of paired rows, the ground truths tabulated twice). The histories of MC_ManagerHist carry that table and TLC checks "
        "per-status counts = list sizes, ground-truth rows = critical ground truths and the as-built count identity in every state; each history "
        "is evaluated by a real manager (base_link and map rendering; one and two scenes), tabulated by PerceptionAnalyzer3D and compared: num_* "
        "properties, rows, ego-frame positions, x / y / yaw errors, rates in [0,1], confusion entries and sum, get_object_status. Areas.tla (1 / 3 / 9 partition, get_area_idx, extract_area_results) is model-checked and replayed; analyzer yaw errors of headings on / off the +-pi cut are validated by Trace_Heading.tla; restricted analyses must leave table and frames unchanged.",
        note="equal headings, area division 1; two known-finding signatures (ground truth matched by a failing estimate counted twice)",
        design="DESIGN.md 5 (C19)",
        technique="TLA+ spec over call histories + TLC exhaustive; spec->code replay of every history through the analyzer",
    ),
    "C20": dict(
        engine="tla-enums",
        text="Enums.tla defines Parse(enum, member table, spelling) over byte sequences with the documented case folding (FrameID, label policy) and "
        "fallback (Visibility aliases / UNAVAILABLE). MC_Enums model-checks the round-trip, case and rejection laws of Parse over all small tables; "
        "every member of every real enum, its case variants, near misses and random strings are parsed by the real constructors and each call is "
        "validated by TLC (member identity, not name string), the label policy also where a user writes it (PerceptionEvaluationConfig); every enum-or-string call site is observed under both spellings and TLC requires "
        "equal observations. Exhaustive over members.",
        note="member tables are introspected from the code at run time; the parser semantics (folding, fallback, reject) are the specification's",
        design="DESIGN.md 5 (C20)",
        technique="TLA+ spec + TLC (laws on abstract tables) + code->spec trace validation of every parser call",
    ),
    "C02": dict(
        engine="tla-matching",
        text="Same specification and runs as C01; the no-blocking-pair predicates, stage order, exactness without ties (declarative Greedy2) and "
        "the lemma Explains <=> reachable outcome are TLC invariants; replay and trace validation reject any real result that is not an outcome of "
        "the two-stage greedy action system (compatible pairs first, best score first).",
        note="as C01",
        design="DESIGN.md 5 (C02)",
        technique="TLA+ spec + TLC exhaustive; spec->code replay; code->spec trace validation",
    ),
}

PENDING_REASON = "check not built yet (build in progress, see DESIGN.md section 10)"


def main():
    props = [json.loads(l)["id"] for l in open(os.path.join(V, "properties.jsonl"))]
    checks = []
    for pid in props:
        if pid not in CHECKS:
            continue
        c = CHECKS[pid]
        checks.append(
            {
                "property_id": pid,
                "quick_cmd": "./check %s --tier quick" % pid,
                "thorough_cmd": "./check %s --tier thorough" % pid,
                "evidence_file": "/verif/evidence/%s.json" % pid,
                "replay_cmd_template": "./check %s --replay {path}" % pid,
                "engine": c["engine"],
                "level_claimed": {"category": MC, "text": c["text"], "design_ref": c["design"]},
                "level_note": c["note"],
                "technique": c["technique"],
            }
        )
    hooks_commits = []
    hp = os.path.join(V, "hooks_commits.txt")
    if os.path.exists(hp):
        hooks_commits = [l.strip() for l in open(hp) if l.strip()]
    m = {
        "version": 1,
        "setup_cmd": "./setup.sh",
        "hooks": {
            "guard": "PERCEPTION_EVAL_VERIF_TRACE",
            "enable": "checks import perception_eval from /repo's working tree (editable install in /venv); hooks (if any) are switched on by "
            "setting PERCEPTION_EVAL_VERIF_TRACE=<ndjson path> in the check's own process",
            "baseline_off_cmd": "cd /repo && /venv/bin/python -m pytest -ra -q -p no:cacheprovider --timeout=900 --continue-on-collection-errors",
            "source_commits": hooks_commits,
            "add_only": True,
        },
        "engines": [
            {"name": "tlc", "path": "/verif/harness/tlc.py", "serves_properties": sorted(CHECKS), "kind_free_text": "TLC 1.8 model checking of spec/*.tla (engine M)"},
            {"name": "replay", "path": "/verif/harness/props", "serves_properties": sorted(CHECKS), "kind_free_text": "spec->code replay of TLC-dumped states / simulated behaviours into the real library (engine R)"},
            {"name": "trace", "path": "/verif/spec", "serves_properties": sorted(CHECKS), "kind_free_text": "code->spec trace validation: ndjson traces of real executions checked by TLC against Trace_*.tla (engine T)"},
        ],
        "checks": checks,
        "not_applicable": [{"property_id": p, "reason": PENDING_REASON} for p in props if p not in CHECKS],
        "notes": "All checks: ./check <id> [--tier quick|thorough]; exit 0 / exit 1 + VIOLATION line / exit 2 machinery failure. known_findings.json lists known and fixed findings. See DESIGN.md.",
    }
    json.dump(m, open(os.path.join(V, "MANIFEST.json"), "w"), indent=1)
    print("checks:", [c["property_id"] for c in checks])


if __name__ == "__main__":
    main()
