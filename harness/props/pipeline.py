"""Manager.tla bound to PerceptionEvaluationManager.add_frame_result — shared by C03, C07, C10 (engines M, R)."""
from __future__ import annotations

import json
import math
import os
import tempfile

from .. import tlc as T
from ..core import Ctx, pmap
from ..tlaval import load_dump

INV = ["ResultsPartition", "GTConservation", "TPJustified", "NothingOutsideCritical", "ApWithinUnit", "Progress"]
ACTIONS = ["StepFilter", "StepMatch", "StepUuid", "StepCrit", "StepClassify", "StepMetrics"]
T2 = '<<"car","pedestrian">>'
T3 = '<<"car","pedestrian","unknown">>'


def fparams(targets, xmax="<<>>", ymax="<<>>", dmax="<<>>", dmin="<<>>", minPts="<<>>", conf="<<>>", uuids="FALSE", ign="FALSE"):
    return ("[targets |-> %s, ignoreAttr |-> %s, xmax |-> %s, ymax |-> %s, dmax |-> %s, dmin |-> %s, minPts |-> %s, conf |-> %s, uuids |-> %s]"
            % (targets, ign, xmax, ymax, dmax, dmin, minPts, conf, uuids))


def cfg_rec(targets, policy, radius, mfilter, cd="<<>>", pd="<<>>"):
    return "[targets |-> %s, policy |-> \"%s\", radius |-> %s, mfilter |-> %s, cd |-> %s, pd |-> %s]" % (targets, policy, radius, mfilter, cd, pd)


def families(tier):
    """name -> constants for MC_Pipeline.  Bounds are in half units (odd, so never on a lattice boundary); mean bounds for
    relaxed unknown estimates use lists whose sum is 2 mod 4 (no equality for n = 2)."""
    big = tier == "thorough"
    fam = {}
    EL = '{"car","pedestrian","unknown"}'
    GL = '{"car","pedestrian","bus","false_positive"}'
    base = dict(XS="-2..2", YS="{0,1}", ELabels=EL, GLabels=GL, Confs="{30,60,90}", PtsSet="{5}", UuidSet="{FALSE}", AttrSet="{0}",
                MaxE="2", MaxG="2", MaxN="3", LcmN="6")
    # A: x/y boxes, default policy, tight/loose/no pass-fail threshold
    cfgA = cfg_rec(T2, "DEFAULT", "<<>>", fparams(T2, xmax="<<9,9>>", ymax="<<9,9>>", minPts="<<0,0>>"), cd="<<3,3>>", pd="<<5,3>>")
    critA = "{%s, %s}" % (fparams(T2, xmax="<<3,7>>", ymax="<<9,9>>"), fparams(T2, xmax="<<9,9>>", ymax="<<1,1>>"))
    pfA = ("{[targets |-> %s, thr |-> <<3,3>>], [targets |-> %s, thr |-> <<>>], [targets |-> %s, thr |-> <<1,5>>], "
           "[targets |-> <<\"pedestrian\", \"car\">>, thr |-> <<1,5>>], [targets |-> <<\"pedestrian\">>, thr |-> <<3>>]}" % (T2, T2, T2))
    fam["A_xy"] = dict(base, CfgSet="{%s}" % cfgA, CritSet=critA, PfSet=pfA, Sample="6000" if big else "700")
    if big:
        # every frame with at most one estimate and one ground truth (exhaustive)
        fam["A_1x1_exhaustive"] = dict(base, CfgSet="{%s}" % cfgA, CritSet=critA, PfSet=pfA, MaxE="1", MaxG="1", Sample="0")
    # B: distance rings, allow-unknown, matchable radius
    cfgB = cfg_rec(T2, "ALLOW_UNKNOWN", "<<<<3,2>>,<<5,2>>>>", fparams(T2, dmax="<<9,9>>", dmin="<<1,1>>", minPts="<<0,0>>"), cd="<<5,3>>")
    critB = "{%s, %s}" % (fparams(T2, dmax="<<3,7>>", dmin="<<1,1>>"), fparams(T2, dmax="<<5,5>>", dmin="<<1,1>>"))
    pfB = "{[targets |-> %s, thr |-> <<3,1>>], [targets |-> %s, thr |-> <<>>]}" % (T2, T2)
    fam["B_ring"] = dict(base, CfgSet="{%s}" % cfgB, CritSet=critB, PfSet=pfB, Sample="3000" if big else "600")
    # C: confidence threshold, point counts, target uuids, ignored attributes
    cfgC1 = cfg_rec(T2, "DEFAULT", "<<>>", fparams(T2, xmax="<<9,9>>", ymax="<<9,9>>", minPts="<<3,6>>", conf="<<50,20>>", ign="TRUE"), cd="<<3,3>>")
    cfgC2 = cfg_rec(T2, "DEFAULT", "<<>>", fparams(T2, xmax="<<5,9>>", ymax="<<9,9>>", minPts="<<0,0>>", uuids="TRUE"), cd="<<3,3>>")
    critC = "{%s, %s}" % (fparams(T2, xmax="<<9,9>>", ymax="<<9,9>>"), fparams(T2, xmax="<<3,7>>", ymax="<<9,9>>", minPts="<<6,3>>", ign="TRUE"))
    pfC = "{[targets |-> %s, thr |-> <<3,3>>]}" % T2
    fam["C_thresholds"] = dict(base, CfgSet="{%s, %s}" % (cfgC1, cfgC2), CritSet=critC, PfSet=pfC, PtsSet="{2,5,8}", UuidSet="{TRUE,FALSE}",
                               AttrSet="{0,1,2}", Confs="{10,20,50,70}", Sample="3000" if big else "600")
    # D: unknown is a target, allow-any policy, three labels
    cfgD = cfg_rec(T3, "ALLOW_ANY", "<<>>", fparams(T3, xmax="<<9,9,9>>", ymax="<<9,9,9>>", minPts="<<0,0,0>>"), cd="<<3,3,3>>", pd="<<3,3,5>>")
    critD = "{%s}" % fparams(T3, xmax="<<3,5,7>>", ymax="<<9,9,9>>")
    pfD = "{[targets |-> %s, thr |-> <<3,3,3>>], [targets |-> %s, thr |-> <<3,3>>], [targets |-> %s, thr |-> <<3,1,5>>]}" % (T3, T2, T3)
    fam["D_unknown_target"] = dict(base, CfgSet="{%s}" % cfgD, CritSet=critD, PfSet=pfD, GLabels='{"car","unknown","false_positive"}',
                                   Sample="2000" if big else "400")
    # E: three estimates x three ground truths (contested, ties) on the default configuration
    fam["E_3x3"] = dict(base, CfgSet="{%s}" % cfgA, CritSet=critA, PfSet="{[targets |-> %s, thr |-> <<3,3>>]}" % T2, MaxE="3", MaxG="3",
                        XS="-1..2", YS="{0}", Sample="3000" if big else "400")
    return fam


# ----------------------------------------------------------------------------- real side

_MGR = {}
_TMP = None
ATTR = "verif_ignored_attr"


def attr_kwargs(code, label):
    """attribute code of Filter.tla -> (attributes list, original label name)"""
    if code in (1, True):
        return [ATTR], label
    if code == 2:
        return [ATTR + "_extended", "other"], label
    if code == 3:
        return ["other"], "%s.%s.x" % (label, ATTR)
    return [], label
EGOS = None


def _egos():
    global EGOS
    if EGOS is None:
        from ..build import EgoPose

        EGOS = [EgoPose(1000.0, -500.0, 32.0, math.pi / 2), EgoPose(-37.5, 220.25, -4.5, 0.7), EgoPose(262144.0, -196608.0, 8.0, math.pi)]
    return EGOS


def eval_dict(cfg, task="detection"):
    mf = cfg["mfilter"]
    n = len(cfg["targets"])
    d = {
        "evaluation_task": task,
        "target_labels": list(cfg["targets"]),
        "label_prefix": "autoware",
        "merge_similar_labels": False,
        "matching_label_policy": cfg["policy"],
        "min_point_numbers": list(mf["minPts"]) if mf["minPts"] else [0] * n,
    }
    def scalar_or_list(vals):
        # documented as a float; per-label lists are accepted too -- use the scalar form when the list is uniform
        vals = [b / 2.0 for b in vals]
        return vals[0] if len(set(vals)) == 1 else vals

    if mf["xmax"]:
        d["max_x_position"] = scalar_or_list(mf["xmax"])
        d["max_y_position"] = scalar_or_list(mf["ymax"])
    else:
        d["max_distance"] = scalar_or_list(mf["dmax"])
        d["min_distance"] = mf["dmin"][0] / 2.0
    if cfg["radius"]:
        d["max_matchable_radii"] = [a / b for a, b in cfg["radius"]]
    if mf["conf"]:
        d["confidence_threshold"] = [c / 100.0 for c in mf["conf"]]
    if mf["uuids"]:
        d["target_uuids"] = ["in1", "in2", "in3", "in4"]
    if mf["ignoreAttr"]:
        d["ignore_attributes"] = [ATTR]
    d["center_distance_thresholds"] = [[t / 2.0 for t in cfg["cd"]]] if cfg["cd"] else None
    d["plane_distance_thresholds"] = [[t / 2.0 for t in cfg["pd"]]] if cfg["pd"] else None
    d["iou_2d_thresholds"] = None
    d["iou_3d_thresholds"] = None
    if not cfg["cd"] and not cfg["pd"]:
        d["center_distance_thresholds"] = [[1.0] * n]
    return d


def manager_for(cfg, frame_id, task="detection"):
    from perception_eval.config import PerceptionEvaluationConfig
    from perception_eval.manager import PerceptionEvaluationManager

    global _TMP
    key = (json.dumps(cfg, sort_keys=True, default=list), frame_id, task)
    m = _MGR.get(key)
    if m is None:
        if _TMP is None:
            _TMP = tempfile.mkdtemp(prefix="verif_mgr_")
            import atexit
            import shutil

            atexit.register(shutil.rmtree, _TMP, True)
        ec = PerceptionEvaluationConfig(dataset_paths=[], frame_id=frame_id, result_root_directory=os.path.join(_TMP, "r%d" % len(_MGR)),
                                        evaluation_config_dict=eval_dict(cfg, task), load_raw_data=False)
        m = PerceptionEvaluationManager(evaluation_config=ec)
        _MGR[key] = m
    m.frame_results.clear()
    return m


def frame_configs(mgr, frame):
    from perception_eval.evaluation.result.perception_frame_config import CriticalObjectFilterConfig, PerceptionPassFailConfig

    cr = frame["crit"]
    kw = dict(target_labels=list(cr["targets"]))
    if cr["xmax"]:
        kw["max_x_position_list"] = [b / 2.0 for b in cr["xmax"]]
        kw["max_y_position_list"] = [b / 2.0 for b in cr["ymax"]]
    else:
        kw["max_distance_list"] = [b / 2.0 for b in cr["dmax"]]
        # 0.0 is falsy for the "both given" test of the constructor only when the whole list is empty
        kw["min_distance_list"] = [b / 2.0 for b in cr["dmin"]]
    if cr["minPts"]:
        kw["min_point_numbers"] = list(cr["minPts"])
    if cr["conf"]:
        kw["confidence_threshold_list"] = [c / 100.0 for c in cr["conf"]]
    if cr["uuids"]:
        kw["target_uuids"] = ["in1", "in2", "in3", "in4"]
    if cr["ignoreAttr"]:
        kw["ignore_attributes"] = [ATTR]
    crit = CriticalObjectFilterConfig(mgr.evaluator_config, **kw)
    pf = frame["pf"]
    pfc = PerceptionPassFailConfig(mgr.evaluator_config, list(pf["targets"]), [t / 2.0 for t in pf["thr"]] if pf["thr"] else None)
    # other frame configurations live in the same process (an application prepares a near and a wide filter up front): built AFTER the ones used
    n_ = len(mgr.evaluator_config.target_labels)
    names_ = [str(l_.value) for l_ in mgr.evaluator_config.target_labels]
    _DECOYS[:] = [CriticalObjectFilterConfig(mgr.evaluator_config, names_[::-1], max_x_position_list=[0.25] * n_, max_y_position_list=[0.25] * n_, target_uuids=["nobody"]),
                  PerceptionPassFailConfig(mgr.evaluator_config, names_[::-1], [0.01] * n_)]
    return crit, pfc


_DECOYS = []


# how an abstract confidence (percent) becomes a float: "wide" = c / 100; "tight" = 0.5 + c * 1e-9 (still pairwise distinct and in the same order,
# but closer together than single precision resolves)
CONF_RENDER = "wide"
# every object floats 3 units above the ego's x/y plane: planar (bird's-eye) quantities must not see it
OBJ_Z = 3.0


def conf_value(c):
    return c / 100.0 if CONF_RENDER == "wide" else 0.5 + c * 1e-9


def render_objects(frame, rendering, ego):
    """`rendering`: base_link | map | base_link:derived (objects obtained through the library's interpolation instead of built afresh)"""
    from ..build import derive, obj3d

    if rendering.endswith(":derived"):
        e_, g_ = render_objects(frame, rendering.split(":")[0], ego)
        return [derive(o) for o in e_], [derive(o, 1) for o in g_]
    fr = "map" if rendering.startswith("map") else "base_link"
    ests, gts = [], []
    for i, e in enumerate(frame["ests"]):
        at, nm = attr_kwargs(e["attr"], e["label"])
        o_ = obj3d((e["x"], e["y"], OBJ_Z), label=e["label"], score=conf_value(e["conf"]), frame=fr, ego=ego, uuid="e%d" % (i + 1), vid=i + 1, attributes=at, points=None)
        o_.semantic_label.name = nm
        ests.append(o_)
    for j, g in enumerate(frame["gts"]):
        at, nm = attr_kwargs(g["attr"], g["label"])
        o_ = obj3d((g["x"], g["y"], OBJ_Z), label=g["label"], score=1.0, frame=fr, ego=ego, uuid=("in%d" if g["uuid"] else "out%d") % (j + 1), vid=j + 1, attributes=at,
                   points=g["pts"])
        o_.semantic_label.name = nm
        gts.append(o_)
    return ests, gts


def looked_up_gt(gts, ego, time, name="0", storage="map", one_sided=False):
    """the ground truth of a scene the way an evaluation gets it from a loaded dataset by an interpolating time lookup: two loaded
    frames around `time` (the ego drives and turns through `ego`, the objects stand still in the map), the earlier of which has been used by an
    evaluation before (a map -> base_link query on its transforms, a look at the objects' geometry).  storage = "base_link": `gts` are given
    relative to `ego` and every loaded frame holds them relative to its own ego pose.  one_sided: every second object is annotated in the
    earlier frame only (the lookup keeps such objects)"""
    import copy

    from perception_eval.common.dataset import get_interpolated_now_frame
    from perception_eval.common.schema import FrameID

    from ..build import EgoPose, frame_gt, yaw_quat

    frames = []
    for sgn, t in ((-1, time - 100), (1, time + 100)):
        e_ = EgoPose(ego.t[0] + sgn * 3.0, ego.t[1] - sgn * 2.0, ego.t[2], ego.yaw + sgn * 0.25)
        objs = copy.deepcopy(list(gts))
        for o in objs:
            o.unix_time = t
            if storage == "base_link":
                (mx, my, mz), myaw = ego.to_map(o.state.position, o.state.orientation.yaw_pitch_roll[0])
                c, s_ = math.cos(-e_.yaw), math.sin(-e_.yaw)
                dx, dy = mx - e_.t[0], my - e_.t[1]
                o.state.position = (c * dx - s_ * dy, s_ * dx + c * dy, mz - e_.t[2])
                o.state.orientation = yaw_quat(myaw - e_.yaw)
        if one_sided and sgn > 0:
            objs = [o for j, o in enumerate(objs) if j % 2 == 0]
        frames.append(frame_gt(objs, time=t, name=name, ego=e_))
    frames[0].transforms.transform((FrameID.MAP, FrameID.BASE_LINK), (1.0, 2.0, 0.0))
    for o in frames[0].objects:
        o.get_footprint(), o.get_corners()
    out = get_interpolated_now_frame(frames, time, 150)
    if out is None or out is frames[0] or out is frames[1]:
        raise RuntimeError("harness: the lookup half way between two loaded frames did not interpolate")
    return out


# unknown and false_positive keep their meaning ("animal" is a name of unknown and "trailer" a name of truck in the unmerged table)
RELABEL = {"car": "motorbike", "pedestrian": "bus", "bus": "truck"}
PAD_LABELS = ["bicycle", "pedestrian"]                                                            # no object carries them


def relabel(cfg, frame):
    """the same configuration and scene with every ordinary label replaced by a rarely used one (the specification looks inside no label other
    than unknown / false_positive) and two further target labels, which no object carries, appended to every label list and per-label list"""
    import copy

    def names(ls):
        return [RELABEL.get(x, x) for x in ls]

    def pad(ls, k=len(PAD_LABELS)):
        return list(ls) + [ls[-1]] * k if ls else ls

    c2, f2 = copy.deepcopy(cfg), copy.deepcopy(frame)
    c2["targets"] = names(c2["targets"]) + PAD_LABELS
    for k in ("radius", "cd", "pd"):
        c2[k] = pad(c2[k])
    for k in ("xmax", "ymax", "dmax", "dmin", "minPts", "conf"):
        c2["mfilter"][k] = pad(c2["mfilter"][k])
        f2["crit"][k] = pad(f2["crit"][k])
    f2["crit"]["targets"] = names(f2["crit"]["targets"]) + PAD_LABELS
    f2["pf"]["targets"] = names(f2["pf"]["targets"]) + PAD_LABELS
    f2["pf"]["thr"] = pad(f2["pf"]["thr"])
    for o in list(f2["ests"]) + list(f2["gts"]):
        o["label"] = RELABEL.get(o["label"], o["label"])
    return c2, f2


def pairs(results):
    from ..build import vid

    return sorted((vid(r.estimated_object), vid(r.ground_truth_object) if r.ground_truth_object is not None else 0) for r in results)


def _deprecated(obj, name):
    """value of a deprecated accessor that is still shipped (a second implementation of the same count), None when it is gone"""
    import warnings as _w

    if not hasattr(obj, name):
        return None
    with _w.catch_warnings():
        _w.simplefilter("ignore")
        return getattr(obj, name)()


def project_frame_result(fr):
    from ..build import vid

    pf = fr.pass_fail_result
    aps = []
    for m in fr.metrics_score.maps:
        aps.append([("inf" if a.ap == float("inf") else a.ap) for a in m.aps])
    aphs = []
    for m in fr.metrics_score.maps:
        aphs.append([("inf" if a.ap == float("inf") else a.ap) for a in m.aphs])
    # the deprecated pair of functions is a second implementation of the same classification (where both are defined)
    import warnings as _w

    from perception_eval.evaluation.matching import MatchingMode
    from perception_eval.evaluation.matching.objects_filter import divide_tp_fp_objects, get_fn_objects

    cfgpf = pf.frame_pass_fail_config
    with _w.catch_warnings():
        _w.simplefilter("ignore")
        dtp, dfp = divide_tp_fp_objects(fr.object_results, cfgpf.target_labels, MatchingMode.PLANEDISTANCE, cfgpf.matching_threshold_list)
        dfn = get_fn_objects(fr.frame_ground_truth.objects, fr.object_results, dtp)
    return dict(
        dep_tp=pairs(dtp),
        dep_fn_ordinary=sorted(vid(o) for o in dfn if not o.semantic_label.is_fp()),
        has_fp_gt=any(o.semantic_label.is_fp() for o in fr.frame_ground_truth.objects),
        rs2=pairs(fr.object_results),
        g2=sorted(vid(o) for o in fr.frame_ground_truth.objects),
        tp=pairs(pf.tp_object_results),
        fp=pairs(pf.fp_object_results),
        fn=sorted(vid(o) for o in pf.fn_objects),
        tn=sorted(vid(o) for o in pf.tn_objects),
        nsucc=pf.get_num_success(),
        nfail=pf.get_num_fail(),
        dep_nfail=_deprecated(pf, "get_fail_object_num"),
        aps=aps,
        aphs=aphs,
        maps=[("inf" if m.map == float("inf") else m.map) for m in fr.metrics_score.maps],
    )


def spec_projection(st):
    aps = []
    for k in ("cd", "pd"):
        row = st["aps"][k]
        if row:
            aps.append([tuple(x) for x in row])
    return dict(
        rs2=sorted(tuple(r) for r in st["rs2"]),
        g2=sorted(st["g2"]),
        tp=sorted(tuple(r) for r in st["tp"]),
        fp=sorted(tuple(r) for r in st["fp"]),
        fn=sorted(st["fn"]),
        tn=sorted(st["tn"]),
        aps=aps,
    )


def ap_equal(impl, spec):
    num, unit = spec
    if num == -1:
        return impl == "inf"
    if impl == "inf":
        return False
    if unit == 0:
        return abs(impl) < 1e-12
    return abs(impl - num / unit) < 1e-9


def compare(impl, spec):
    """-> list of differing field names"""
    diff = []
    for k in ("rs2", "g2", "tp", "fp", "fn", "tn"):
        if [tuple(x) if isinstance(x, (list, tuple)) else x for x in impl[k]] != list(spec[k]):
            diff.append(k)
    if impl["nsucc"] != len(spec["tp"]) + len(spec["tn"]) or impl["nfail"] != len(spec["fp"]) + len(spec["fn"]):
        diff.append("num_success_fail")
    if impl.get("dep_nfail") is not None and impl["dep_nfail"] != len(spec["fp"]) + len(spec["fn"]):
        diff.append("deprecated_get_fail_object_num")
    if not impl.get("has_fp_gt", True):
        if [tuple(x) for x in impl["dep_tp"]] != list(spec["tp"]):
            diff.append("deprecated_divide_tp_fp")
        if list(impl["dep_fn_ordinary"]) != list(spec["fn"]):
            diff.append("deprecated_get_fn")
    if len(impl["aps"]) != len(spec["aps"]):
        diff.append("maps_shape")
    else:
        for ri, (irow, srow) in enumerate(zip(impl["aps"], spec["aps"])):
            for a, b in zip(irow, srow):
                if not ap_equal(a, b):
                    diff.append("ap")
                    break
        for irow, hrow in zip(impl["aps"], impl["aphs"]):
            for a, h in zip(irow, hrow):
                if a != "inf" and (h == "inf" or abs(a - h) > 1e-9):
                    diff.append("aph")  # all headings equal in these scenes -> APH = AP
                    break
    return sorted(set(diff))


def run_scene(cfg, frame, rendering, ego, stage_check=True):
    """one real execution -> (projection, stage projection)"""
    from ..build import frame_gt

    if rendering.endswith(":relabelled"):
        cfg, frame = relabel(cfg, frame)
        rendering = rendering.split(":")[0]
    mgr = manager_for(cfg, "map" if rendering.startswith("map") else "base_link")
    crit, pfc = frame_configs(mgr, frame)
    stage = None

    def ground_truth(gts_):
        return looked_up_gt(gts_, ego, 1000) if rendering == "map:looked-up" else frame_gt(gts_, ego=ego)

    if stage_check:
        ests, gts = render_objects(frame, rendering, ego)
        fgt = ground_truth(gts)
        res, fgt2 = mgr._filter_objects(ests, fgt)
        from ..build import vid

        stage = dict(rs=pairs(res), g1=sorted(vid(o) for o in fgt2.objects))
    ests, gts = render_objects(frame, rendering, ego)
    ests0 = list(ests)
    fgt = ground_truth(gts)
    fr = mgr.add_frame_result(1000, fgt, ests, crit, pfc)
    pr = project_frame_result(fr)
    pr["caller_list_untouched"] = len(ests) == len(ests0) and all(a is b for a, b in zip(ests, ests0))
    return pr, stage


def replay_group(arg):
    """arg = (cfg, frame, [spec projections of the terminated states for this input], [stage outcome sets])"""
    cfg, frame, specs, stages = arg
    out = []
    n = 0
    renders = [("base_link", _egos()[0])] + [("map", e) for e in _egos()] + [("base_link:derived", _egos()[0])]
    import zlib

    h = zlib.crc32(repr((sorted(frame.items()), sorted(cfg.items()))).encode())
    if h % 2 == 0:
        # the ground truth of the map scene obtained by an interpolating lookup on loaded frames (every second scene)
        renders.append(("map:looked-up", _egos()[1 + (h // 2) % 2]))
    if h % 3 == 1:
        # rarely used label names, label lists of 4-5 entries (every third scene)
        renders.append(("base_link:relabelled", _egos()[0]))
    impls = []
    for rendering, ego in renders:
        n += 1
        rep = {"cfg": cfg, "frame": frame, "rendering": rendering, "ego": [ego.t, ego.yaw], "spec": specs[0] if specs else None}
        try:
            pr, stage = run_scene(cfg, frame, rendering, ego)
        except Exception as ex:
            out.append((rendering, "raised", ["raised"], "add_frame_result raised %r" % (ex,), rep))
            impls.append(None)
            continue
        rep["impl"] = pr
        impls.append(pr)
        diffs = [compare(pr, sp) for sp in specs]
        if not any(len(d) == 0 for d in diffs):
            best = min(diffs, key=len)
            out.append((rendering, "final", best, "frame result differs from every specification outcome in %s" % best, rep))
        if stage is not None and (tuple(map(tuple, stage["rs"])), tuple(stage["g1"])) not in stages:
            rep2 = dict(rep, stage_impl=stage, stage_spec=[list(s) for s in stages][:4])
            out.append((rendering, "stage", ["manager-filter-or-matching"], "objects reaching/leaving matching differ: %s" % stage, rep2))
        if not pr["caller_list_untouched"]:
            out.append((rendering, "caller", ["caller-list"], "caller's estimate list modified", rep))
    return n, out, impls


def collect(dump_path):
    states, total = load_dump(dump_path, must_contain='pc = "done"')
    groups = {}
    for st in states:
        key = repr((sorted(st["cfg"].items()), sorted(st["frame"].items())))
        g = groups.setdefault(key, (st["cfg"], st["frame"], [], set()))
        g[2].append(spec_projection(st))
        g[3].add((tuple(sorted(tuple(r) for r in st["rs"])), tuple(sorted(st["g1"]))))
    return groups, total


def plain(v):
    """TLA value -> plain python (lists/dicts) for building configs"""
    if isinstance(v, dict):
        return {k: plain(x) for k, x in v.items()}
    if isinstance(v, (tuple, list)):
        return [plain(x) for x in v]
    if isinstance(v, frozenset):
        return sorted((plain(x) for x in v), key=lambda x: json.dumps(x, sort_keys=True, default=str))
    return v


def run_pipeline(ctx: Ctx, want):
    """want(rendering, kind, fields) -> bool : which mismatches belong to this property"""
    for name, consts in families(ctx.tier).items():
        res = T.run_model("MC_Pipeline", "MCP_%s_%s" % (ctx.pid, name), consts, invariants=INV, properties=["InputsUntouched", "PcAdvances"], model_values=(),
                          tlc_kwargs=dict(dump=True, allow_violation=False, seed=ctx.seed, timeout=3000))
        ctx.add_tlc(res, "MC_Pipeline/" + name, must_take=ACTIONS)
        ctx.log("tlc %s: %d states %.1fs" % (name, res.distinct, res.wall))
        groups, _ = collect(res.dump_path)
        os.remove(res.dump_path)
        items = [(plain(c), plain(f), specs, stages) for c, f, specs, stages in groups.values()]
        outs = pmap(replay_group, items)
        for (c, f, specs, _st), (n, mism, impls) in zip(items, outs):
            ctx.traces += n
            ctx.evaluations += n
            sp = specs[0]
            if sp["rs2"] and (sp["fp"] or sp["fn"] or sp["tn"]) or len(specs) > 1:
                ctx.nontriv(json.dumps([c, f], sort_keys=True))
            for rendering, kind, fields, msg, rep in mism:
                if want(rendering, kind, fields):
                    ctx.violation("%s:%s:%s" % (kind, rendering.replace(":", "-") if rendering.startswith("map") else "ego", "+".join(fields)), msg, rep)
            yield c, f, specs, impls
        ctx.log("replayed %s: %d scenes x 3 renderings" % (name, len(items)))
        if items:
            c, f, specs, _ = items[len(items) // 2]
            ctx.sample({"family": name, "frame": f, "cfg": c, "spec_outcome": specs[0]}, limit=3)
