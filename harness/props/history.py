"""C13 — MC_ManagerHist.tla bound to sequences of PerceptionEvaluationManager.add_frame_result / get_scene_result (engines M, R)."""
from __future__ import annotations

import json
import math
import os

from .. import tlc as T
from ..core import Ctx, pmap
from ..tlaval import load_dump
from . import pipeline
from .pipeline import T2, cfg_rec, fparams, plain

INV = ["AnalyzerCounts", "DatasetUntouched", "HistoryIndependence", "OneFrameScene", "GtCountsAdd", "OrderIndependence", "SceneApWithinUnit", "ResultsPartition", "GTConservation"]


def o(x, y, label, conf=100, pts=5):
    return '[x |-> %d, y |-> %d, label |-> "%s", conf |-> %d, attr |-> 0, pts |-> %d, uuid |-> FALSE]' % (x, y, label, conf, pts)


def worlds(tier):
    """tie-free datasets (distinct pair distances) with estimate variants of globally distinct confidences"""
    w = {}
    cfg = cfg_rec(T2, "DEFAULT", "<<>>", fparams(T2, xmax="<<11,11>>", ymax="<<11,11>>", minPts="<<0,0>>"), cd="<<3,3>>")
    w["narrow_wide"] = dict(
        Dataset="<< <<%s, %s>>, <<%s, %s, %s>> >>" % (o(1, 0, "car"), o(4, 1, "pedestrian"), o(0, 1, "car"), o(3, -1, "car"), o(-4, 0, "pedestrian")),
        EstVariants="<< <<%s, %s>>, <<%s>>, <<%s, %s>> >>" % (o(1, 1, "car", 90, 0), o(4, 0, "pedestrian", 60, 0), o(3, 0, "car", 75, 0), o(0, 0, "car", 80, 0), o(-4, 1, "pedestrian", 55, 0)),
        CritVariants="<< %s, %s >>" % (fparams(T2, xmax="<<3,3>>", ymax="<<9,9>>"), fparams(T2, xmax="<<9,9>>", ymax="<<9,9>>")),
        Pf="[targets |-> %s, thr |-> <<3,3>>]" % T2, TheCfg=cfg)
    cfg2 = cfg_rec(T2, "ALLOW_UNKNOWN", "<<<<5,2>>,<<5,2>>>>", fparams(T2, dmax="<<11,11>>", dmin="<<1,1>>", minPts="<<0,0>>"), cd="<<5,3>>")
    w["ring_fp_gt"] = dict(
        Dataset="<< <<%s, %s, %s>>, <<%s>> >>" % (o(2, 0, "car"), o(0, 3, "false_positive"), o(-3, 1, "pedestrian"), o(1, 2, "car")),
        # the fourth variant pairs the FP-labelled ground truth (its estimate becomes an FP without ground truth) BEFORE a pair that fails its
        # threshold (an FP that keeps its ground truth), in one frame
        EstVariants="<< <<%s, %s>>, <<%s, %s>>, <<>>, <<%s, %s>> >>" % (o(2, 1, "unknown", 85, 0), o(0, 2, "car", 40, 0), o(1, 1, "car", 70, 0), o(-3, 0, "pedestrian", 65, 0),
                                                                      o(0, 2, "car", 45, 0), o(-3, 0, "pedestrian", 62, 0)),
        CritVariants="<< %s, %s >>" % (fparams(T2, dmax="<<5,5>>", dmin="<<1,1>>"), fparams(T2, dmax="<<9,9>>", dmin="<<3,3>>")),
        Pf="[targets |-> %s, thr |-> <<5,1>>]" % T2, TheCfg=cfg2)
    return w


def replay(arg):
    from ..build import frame_gt, vid

    consts, frs, scene = arg[:3]
    # how the history is realised: objects stored in base_link with fresh frame configurations for every call, or stored in map with a different
    # ego pose for every dataset frame and ONE configuration object per critical-filter variant shared by all the calls that use it
    how = arg[3] if len(arg) > 3 else "base_link"
    pipeline.CONF_RENDER = "tight" if how.endswith(":tight-confidences") else "wide"
    how = how.split(":")[0]
    cfg = consts["cfg"]
    rendering = "map" if how == "map-shared-configs" else "base_link"
    mgr = pipeline.manager_for(cfg, rendering)
    ds = consts["dataset"]
    gframes = []
    from ..build import EgoPose

    egos = [EgoPose(50.0 * (i + 1), -30.0 + 17.0 * i, 0.0, 0.9 + 1.7 * i) if rendering == "map" else None for i in range(len(ds))]
    for i, gts in enumerate(ds):
        _, g = pipeline.render_objects({"ests": [], "gts": gts}, rendering, egos[i])
        if how == "base_link-looked-up":
            # the dataset frames themselves come from interpolating lookups between loaded base_link frames that have been used before; every
            # second object is annotated in the earlier loaded frame only
            drive = EgoPose(50.0 * (i + 1), -30.0 + 17.0 * i, 0.0, 0.9 + 1.7 * i)
            gframes.append(pipeline.looked_up_gt(g, drive, 1000 * (i + 1), name=str(i), storage="base_link", one_sided=True))
            continue
        gframes.append(frame_gt(g, time=1000 * (i + 1), name=str(i), ego=egos[i]))
    mgr.ground_truth_frames = gframes
    original = [[vid(x) for x in f.objects] for f in gframes]
    mism = []
    rep = {"calls": [[r["i"], r["ev"], r["cv"]] for r in frs], "world": consts["name"], "realisation": how}
    shared = {}
    for k, rec in enumerate(frs):
        frame = {"ests": consts["ests"][rec["ev"] - 1], "gts": ds[rec["i"] - 1], "crit": consts["crits"][rec["cv"] - 1], "pf": consts["pf"]}
        if how == "map-shared-configs":
            if rec["cv"] not in shared:
                shared[rec["cv"]] = pipeline.frame_configs(mgr, frame)
            crit, pfc = shared[rec["cv"]]
        else:
            crit, pfc = pipeline.frame_configs(mgr, frame)
        ests, _ = pipeline.render_objects({"ests": frame["ests"], "gts": []}, rendering, egos[rec["i"] - 1])
        ests0 = list(ests)
        fgt = mgr.ground_truth_frames[rec["i"] - 1]
        try:
            fr = mgr.add_frame_result(1000 * rec["i"], fgt, ests, crit, pfc)
        except Exception as ex:
            mism.append(("raised", "call %d raised %r" % (k, ex), rep))
            return 1, mism
        pr = pipeline.project_frame_result(fr)
        sp = pipeline.spec_projection(rec)
        diff = pipeline.compare(pr, sp)
        if diff:
            first = all(r2["i"] != rec["i"] for r2 in frs[:k])
            mism.append(("frame-result:%s:%s" % ("first-evaluation-of-frame" if first else "frame-evaluated-before", "+".join(diff)),
                         "call %d (frame %d, estimates %d, critical filter %d): result differs in %s: impl %s spec %s" % (
                             k, rec["i"], rec["ev"], rec["cv"], diff, {f: pr[f] for f in ("rs2", "g2", "tp", "fp", "fn", "tn")}, sp), rep))
        if len(ests) != len(ests0) or any(a is not b for a, b in zip(ests, ests0)):
            mism.append(("caller-list", "call %d modified the caller's estimate list" % k, rep))
        now = [[vid(x) for x in f.objects] for f in mgr.ground_truth_frames]
        if now != original:
            mism.append(("dataset-modified", "after call %d the loaded ground truth is %s (was %s)" % (k, now, original), rep))
            original = now  # report once per history
    try:
        sc = mgr.get_scene_result()
    except Exception as ex:
        mism.append(("raised", "get_scene_result raised %r" % (ex,), rep))
        return 1, mism
    aps = [("inf" if a.ap == float("inf") else a.ap) for a in sc.maps[0].aps] if sc.maps else []
    if len(aps) != len(scene) or not all(pipeline.ap_equal(a, tuple(b)) for a, b in zip(aps, scene)):
        mism.append(("scene-score", "scene AP %s, specification %s" % (aps, scene), rep))
    # mAP of the scene = mean of the per-label APs that are defined
    if sc.maps and len(aps) == len(scene):
        defined = [a for a in aps if a != "inf"]
        want_map = sum(defined) / len(defined) if defined else float("inf")
        got_map = sc.maps[0].map
        if (want_map == float("inf")) != (got_map == float("inf")) or (want_map != float("inf") and abs(got_map - want_map) > 1e-9):
            mism.append(("scene-map", "scene mAP %r, mean of the defined per-label APs %r" % (got_map, want_map), rep))
    want_gt = sum(sum(r["numgt"]) for r in frs)
    if sc.num_ground_truth != want_gt:
        mism.append(("scene-gt-count", "scene ground-truth count %s, specification %s" % (sc.num_ground_truth, want_gt), rep))
    if len(mgr.frame_results) != len(frs):
        mism.append(("frame-results-length", "manager holds %d frame results after %d calls" % (len(mgr.frame_results), len(frs)), rep))
    return 1, mism


def replay_worlds(ctx: Ctx, maxcalls, want=lambda clause: True, tag=""):
    for name, w in worlds(ctx.tier).items():
        consts = dict(w, MaxN="3", LcmN="6", MaxCalls=str(maxcalls), AsBuiltAliasedGT="FALSE", PoolN="9", PoolL="2520")
        res = T.run_model("MC_ManagerHist", "MCMH_%s%s" % (tag, name), consts, init="HInit", next="HNext", invariants=INV, properties=["InputsOnlyChangeAtBegin"], model_values=(),
                          tlc_kwargs=dict(dump=True, allow_violation=False, timeout=3000))
        ctx.add_tlc(res, "MC_ManagerHist/%s depth %d" % (name, maxcalls), must_take=["BeginAdd", "Step", "Commit"])
        # the as-built aliasing of the shared ground-truth object must be FOUND by TLC (vacuity check of DatasetUntouched)
        bad = T.run_model("MC_ManagerHist", "MCMH_%s%s_asbuilt" % (tag, name), dict(consts, AsBuiltAliasedGT="TRUE", MaxCalls="2"), init="HInit", next="HNext",
                          invariants=["DatasetUntouched", "HistoryIndependence"], model_values=(), tlc_kwargs=dict(timeout=1200))
        if not bad.violated:
            raise T.TlcError("vacuity: TLC does not find the aliasing counterexample in %s" % name)
        ctx.tlc_runs.append({"model": "MC_ManagerHist/%s AsBuiltAliasedGT=TRUE" % name, "expected_violation_found": bad.violated})
        states, _ = load_dump(res.dump_path, must_contain='pc = "idle"')
        os.remove(res.dump_path)
        cw = dict(name=name, cfg=None)
        items = []
        for st in states:
            if st["pc"] != "idle" or len(st["frameResults"]) == 0:
                continue
            if cw["cfg"] is None:
                cw["cfg"] = plain(st["cfg"])
            items.append(st)
        # constants as python values (parsed back from the dumped frames is not possible for unused variants: parse the TLA text once via TLC dump of cfg only)
        consts_py = dict(name=name, cfg=cw["cfg"], dataset=_parse_tla(w["Dataset"]), ests=_parse_tla(w["EstVariants"]), crits=_parse_tla(w["CritVariants"]), pf=_parse_tla(w["Pf"]))
        jobs = [(consts_py, plain(st["frameResults"]), plain(st["scene"]), how) for st in items for how in ("base_link", "map-shared-configs", "base_link:tight-confidences", "base_link-looked-up")]
        outs = pmap(replay, jobs)
        for job, (n, mism) in zip(jobs, outs):
            ctx.traces += n
            ctx.evaluations += n
            calls = job[1]
            if len(calls) >= 2 and len({c["i"] for c in calls}) < len(calls):
                ctx.nontriv(json.dumps([name, [[c["i"], c["ev"], c["cv"]] for c in calls]]))
            for clause, msg, rep in mism:
                if want(clause):
                    ctx.violation(clause, msg, rep)
        ctx.log("replayed %s: %d histories" % (name, len(jobs)))
        j = jobs[len(jobs) * 2 // 3]
        ctx.sample({"world": name, "calls(frame, estimates, critical filter)": [[c["i"], c["ev"], c["cv"]] for c in j[1]], "spec_scene_ap": j[2],
                    "spec_last_result": {k: j[1][-1][k] for k in ("rs2", "g2", "tp", "fp", "fn", "tn")}}, limit=3)


def run(ctx: Ctx):
    replay_worlds(ctx, 2 if ctx.quick else 3)
    # tracking scores depend on the immediately preceding frame result only (and the scene pools all frames)
    from . import tracking_manager

    ctx.extra["manager_tracking_traces"] = tracking_manager.run(ctx, renderings=("base_link",), n=40 if ctx.quick else 300)
    # the MetricsScore object itself: families per task, one score per threshold row, ground-truth count added exactly once (frame and scene level)
    from . import metrics_shape

    metrics_shape.run(ctx)
    ctx.exhaustive = True
    ctx.rule = (
        "TLC explores every sequence of up to 2 (quick) / 3 (thorough) add_frame_result calls over two worlds (2 ground-truth frames x 3 estimate "
        "lists x 2 critical filters each: narrow-then-wide re-evaluation, repeated frames, FP-labelled ground truth, unknown estimates), running the "
        "step machine of Manager.tla for each call, and checks dataset-untouched, same-inputs-same-outcome, one-frame-scene, ground-truth counts "
        "add, order independence of the pooled AP under distinct confidences and scene AP within [0,1]; with AsBuiltAliasedGT = TRUE TLC must find "
        "the aliasing counterexample. Every reached history is replayed on ONE real manager (the ground-truth frame objects are the manager's own, "
        "as returned by get_ground_truth_now_frame), comparing every frame result, the caller's list, ground_truth_frames after every call and "
        "get_scene_result (AP per label, ground-truth count). Non-trivial = history evaluating some ground-truth frame more than once."
    )
    ctx.assumptions += ["tie-free worlds (distinct pair distances) so each call has one specification outcome", "replayed histories use the detection task; the tracking predecessor and scene pooling are validated by TLC on random moving scenes (Trace_Clear)"]


def _parse_tla(text):
    from ..tlaval import parse_value

    return plain(parse_value(text))
