"""C10 — Filter.tla bound to filter_objects / filter_object_results / manager._filter_objects (engines M, R)."""
from __future__ import annotations

import json
import math
import os

from .. import tlc as T
from ..core import Ctx, pmap
from ..tlaval import load_dump
from . import pipeline
from .pipeline import ATTR, T2, T3, fparams, plain

INV = ["InvKeptExactly", "InvIdempotent", "InvWidening", "InvFpAlwaysPasses", "InvResultNeedsBoth"]


def slices(tier):
    big = tier == "thorough"
    LS = '{"car","pedestrian","unknown","bus","false_positive"}'
    base = dict(XS="-3..3" if big else "{-3,-1,0,2}", YS="{-2,0,1}" if big else "{0,1}", LabelSet=LS, ConfSet="{10,20,50,70}", PtsSet="{0,3,9}", AttrVals="{0,1,2,3}" if big else "{0,1}", MaxObjs="1", Sample="0")
    sl = {}
    # lists over two targets have sum = 2 mod 4: the mean bound of a relaxed unknown estimate is never hit exactly
    xy = [fparams(T2, xmax="<<3,7>>", ymax="<<3,3>>"), fparams(T2, xmax="<<5,5>>", ymax="<<1,5>>", conf="<<50,20>>", minPts="<<3,9>>"),
          fparams(T3, xmax="<<3,5,7>>", ymax="<<3,3,3>>", conf="<<20,20,50>>")]
    xyw = [fparams(T2, xmax="<<3,11>>", ymax="<<5,5>>"), fparams(T2, xmax="<<5,9>>", ymax="<<1,5>>", conf="<<50,20>>", minPts="<<3,9>>")]
    sl["xy"] = dict(base, ParamSet="{%s}" % ", ".join(xy), WideSet="{%s}" % ", ".join(xyw))
    ring = [fparams(T2, dmax="<<5,9>>", dmin="<<1,5>>"), fparams(T2, dmax="<<3,7>>", dmin="<<1,1>>", uuids="TRUE", ign="TRUE"),
            fparams(T3, dmax="<<5,5,7>>", dmin="<<1,1,3>>", minPts="<<0,3,3>>")]
    ringw = [fparams(T2, dmax="<<9,9>>", dmin="<<1,1>>"), fparams(T2, dmax="<<5,9>>", dmin="<<1,1>>", uuids="TRUE", ign="TRUE")]
    sl["ring"] = dict(base, ParamSet="{%s}" % ", ".join(ring), WideSet="{%s}" % ", ".join(ringw))
    nopos = [fparams(T2, conf="<<50,20>>", ign="TRUE"), fparams(T2, uuids="TRUE"), fparams(T3, conf="<<20,50,20>>"), fparams("<<>>")]
    sl["labels_only"] = dict(base, AttrVals="{0,1,2,3}", XS="{0}", YS="{0}", ParamSet="{%s}" % ", ".join(nopos), WideSet="{}")
    sl["lists"] = dict(base, XS="{-2,0,3}", YS="{0,1}", ParamSet="{%s}" % ", ".join(xy[:2] + ring[:1]), WideSet="{}", MaxObjs="3",
                       Sample="4000" if big else "400", PtsSet="{3,9}", ConfSet="{20,50,70}", AttrVals="{0,1,2,3}")
    # bounds that lattice objects DO hit (even half units, 3-4-5 distances): "strictly inside" decided on the boundary itself.  Exact only for
    # objects stored in base_link (integers), so this slice is replayed in that rendering only.
    bnd = [fparams(T2, xmax="<<4,6>>", ymax="<<2,4>>"), fparams(T2, dmax="<<10,6>>", dmin="<<2,4>>"), fparams(T3, xmax="<<4,4,6>>", ymax="<<4,4,4>>", conf="<<20,50,20>>"),
           fparams(T2, dmax="<<10,10>>", dmin="<<2,2>>")]
    sl["boundary_exact"] = dict(base, XS="{-3,-2,0,1,2,3,4}", YS="{-2,0,1,2,3}" if big else "{0,1,2,3}", ParamSet="{%s}" % ", ".join(bnd), WideSet="{}", AttrVals="{0}", PtsSet="{3}",
                                ConfSet="{20,50}")
    return sl


# traffic-light rendering of the abstract labels (the filter must treat the two label families alike)
TL_OF = {"car": "green", "pedestrian": "red", "bus": "yellow", "unknown": "unknown", "false_positive": "false_positive"}


def kwargs_of(P, transforms, tl=False):
    from ..build import AW, TL

    kw = dict(target_labels=[(TL[TL_OF[t]] if tl else AW[t]) for t in P["targets"]] if P["targets"] else None)
    kw["ignore_attributes"] = [ATTR] if P["ignoreAttr"] else None
    for a, b in (("xmax", "max_x_position_list"), ("ymax", "max_y_position_list"), ("dmax", "max_distance_list"), ("dmin", "min_distance_list")):
        kw[b] = [v / 2.0 for v in P[a]] if P[a] else None
    kw["min_point_numbers"] = list(P["minPts"]) if P["minPts"] else None
    kw["confidence_threshold_list"] = [c / 100.0 for c in P["conf"]] if P["conf"] else None
    kw["target_uuids"] = ["in1", "in2", "in3"] if P["uuids"] else None
    kw["transforms"] = transforms
    return kw


def build_objs(objs, rendering, ego):
    from ..build import obj2d, obj3d

    out = []
    for i, o in enumerate(objs):
        uu = ("in%d" if o["uuid"] else "out%d") % (i + 1)
        attrs, nm = pipeline.attr_kwargs(o["attr"], o["label"])
        if rendering in ("2d", "2d_tl"):
            ob = obj2d((5, 5), label=TL_OF[o["label"]] if rendering == "2d_tl" else o["label"], score=o["conf"] / 100.0, uuid=uu, vid=i + 1, tl=rendering == "2d_tl")
            ob.semantic_label.attributes = attrs
            ob.semantic_label.name = nm
            ob.pointcloud_num = o["pts"]
        else:
            ob = obj3d((o["x"], o["y"], 3.0), yaw=0.3 * i, label=o["label"], score=o["conf"] / 100.0, uuid=uu, vid=i + 1, points=o["pts"],
                       attributes=attrs, frame="map" if rendering.startswith("map") else "base_link", ego=ego)
            ob.semantic_label.name = nm
            if rendering.endswith(":derived"):
                from ..build import derive

                ob = derive(ob)
        out.append(ob)
    return out


def replay_filter(arg):
    from perception_eval.evaluation.matching.objects_filter import filter_object_results, filter_objects
    from perception_eval.evaluation.result.object_result import DynamicObjectWithPerceptionResult

    from ..build import vid

    objs, is_gt, P, out = arg[:4]
    exact_only = len(arg) > 4 and arg[4]
    egos = pipeline._egos()
    has_pos = any(P[k] for k in ("xmax", "ymax", "dmax", "dmin"))
    renders = [("base_link", None, None), ("base_link", egos[0], egos[0].transforms()), ("map", egos[1], egos[1].transforms()), ("base_link:derived", None, None)]
    if exact_only:
        renders = [("base_link", None, None)]
    if has_pos and not exact_only:
        # a registry that has already served the map->ego direction under another ego pose and then had its pose replaced (what the library
        # itself does when it interpolates an evaluated frame): filtering sees the new pose only
        from perception_eval.common.schema import FrameID

        td = egos[0].transforms()
        try:
            filter_objects(build_objs(objs, "map", egos[0]), is_gt, **kwargs_of(P, td))
            td[(FrameID.BASE_LINK, FrameID.MAP)] = egos[1].matrices()[0]
            renders.append(("map:reused-transforms", egos[1], td))
        except Exception:
            pass
    if not has_pos and not P["minPts"]:
        renders.append(("2d", None, None))
        renders.append(("2d_tl", None, None))
    mism = []
    n = 0
    for rendering, ego, tf in renders:
        n += 1
        real = build_objs(objs, rendering, ego)
        if rendering == "map:reused-transforms":
            # ... and the very same object instances have been through the filter once before, with the other pose's transforms
            try:
                filter_objects(real, is_gt, **kwargs_of(P, egos[0].transforms()))
            except Exception:
                pass
        real0 = list(real)
        kw = kwargs_of(P, tf, tl=rendering == "2d_tl")
        rep = {"objs": objs, "is_gt": is_gt, "P": P, "rendering": rendering, "spec": out}
        try:
            kept = filter_objects(real, is_gt, **kw)
            kept2 = filter_objects(kept, is_gt, **kw)
        except Exception as ex:
            mism.append(("raised", "filter_objects raised %r" % (ex,), rep))
            continue
        ids = [vid(o) for o in kept]
        rep["impl_kept"] = ids
        if ids != list(out["kept"]):
            # classify the F10 shape: a ground truth dropped only because of the confidence list
            extra = ""
            if is_gt and P["conf"] and set(ids) < set(out["kept"]):
                extra = ":gt-dropped-by-confidence"
            mism.append(("kept" + extra, "filter_objects kept %s, specification %s" % (ids, list(out["kept"])), rep))
        if [vid(o) for o in kept2] != ids:
            mism.append(("idempotent", "second application changed the list", rep))
        if len(real) != len(real0) or any(a is not b for a, b in zip(real, real0)):
            mism.append(("input-mutated", "input list changed", rep))
        if any(a is not real0[vid(a) - 1] for a in kept):
            mism.append(("not-a-sublist", "returned objects are not the input objects", rep))
        # filter_object_results on (estimate 2k-1, ground truth 2k) pairs
        if rendering not in ("2d", "2d_tl"):
            prs = []
            for k in range((len(real) + 1) // 2):
                e = real[2 * k]
                g = real[2 * k + 1] if 2 * k + 1 < len(real) else None
                prs.append(DynamicObjectWithPerceptionResult(e, g, transforms=tf))
            prs0 = list(prs)
            try:
                kr = filter_object_results(prs, **kw)
            except Exception as ex:
                mism.append(("raised", "filter_object_results raised %r" % (ex,), rep))
                continue
            got = [(vid(r.estimated_object), vid(r.ground_truth_object) if r.ground_truth_object is not None else 0) for r in kr]
            if got != [tuple(x) for x in out["results"]]:
                mism.append(("results", "filter_object_results kept %s, specification %s" % (got, [tuple(x) for x in out["results"]]), rep))
            if len(prs) != len(prs0):
                mism.append(("input-mutated", "result list changed", rep))
    return n, mism


_SMGR = {}


def replay_sensing_uuids(arg):
    """the uuid criterion of Filter.tla at the sensing manager: the frame configuration handed to add_frame_result decides which ground truths are
    evaluated (the evaluation configuration's own list only when no frame configuration is given)"""
    import shutil
    import tempfile

    import numpy as np

    from perception_eval.config import SensingEvaluationConfig
    from perception_eval.evaluation.sensing.sensing_frame_config import SensingFrameConfig
    from perception_eval.manager import SensingEvaluationManager

    from ..build import frame_gt, obj3d

    objs, P = arg
    mism = []
    n = 0
    ins = ["in%d" % (i + 1) for i in range(4)]
    for cfg_list, frame_list in ((None, "P"), (["nobody"], "P"), ("P", None), ("P", "absent"), (["nobody"], "absent")):
        n += 1
        res = lambda v: (list(ins) if P["uuids"] else None) if v == "P" else v
        key = json.dumps(res(cfg_list))
        if key not in _SMGR:
            tmp = tempfile.mkdtemp(prefix="verif_suuid_")
            try:
                ec = SensingEvaluationConfig([], "base_link", tmp, {"evaluation_task": "sensing", "target_uuids": res(cfg_list), "box_scale_0m": 1.0, "box_scale_100m": 1.0,
                                                                    "min_points_threshold": 1})
                _SMGR[key] = SensingEvaluationManager(evaluation_config=ec)
            finally:
                shutil.rmtree(tmp, ignore_errors=True)
        mgr = _SMGR[key]
        mgr.frame_results.clear()
        real = [obj3d((float(o["x"]), float(o["y"]), 0.0), label=o["label"] if o["label"] != "false_positive" else "car", uuid=("in%d" if o["uuid"] else "out%d") % (i + 1), vid=i + 1)
                for i, o in enumerate(objs)]
        decisive = res(cfg_list) if frame_list == "absent" else res(frame_list)
        want = sorted(r.uuid for r in real if decisive is None or r.uuid in decisive)
        rep = {"objs": objs, "evaluation_config_target_uuids": res(cfg_list), "frame_config_target_uuids": "no frame configuration" if frame_list == "absent" else res(frame_list),
               "spec_evaluated": want}
        try:
            cloud = np.array([[50.0, 50.0, 0.0, 1.0]])
            if frame_list == "absent":
                fr = mgr.add_frame_result(1000, frame_gt(real), cloud, [])
            else:
                fr = mgr.add_frame_result(1000, frame_gt(real), cloud, [], SensingFrameConfig(target_uuids=res(frame_list), box_scale_0m=1.0, box_scale_100m=1.0, min_points_threshold=1))
            got = sorted(r.ground_truth_object.uuid for lst in (fr.detection_success_results, fr.detection_fail_results, fr.detection_warning_results) for r in lst)
        except Exception as ex:
            mism.append(("sensing-manager-uuids:raised", "raised %r" % (ex,), rep))
            continue
        if got != want:
            mism.append(("sensing-manager-uuids", "sensing manager evaluated %s, specification %s" % (got, want), rep))
    return n, mism


def run(ctx: Ctx):
    seen_s = set()
    sens_items = []
    for name, consts in slices(ctx.tier).items():
        res = T.run_model("MC_Filter", "MCF_" + name, consts, invariants=INV, model_values=(),
                          tlc_kwargs=dict(dump=True, allow_violation=False, seed=ctx.seed, timeout=3000))
        ctx.add_tlc(res, "MC_Filter/" + name, must_take=["Eval"])
        ctx.log("tlc %s: %d states %.1fs" % (name, res.distinct, res.wall))
        states, _ = load_dump(res.dump_path, must_contain='phase = "done"')
        os.remove(res.dump_path)
        items = [(plain(st["objs"]), st["isGT"], plain(st["P"]), plain(st["out"]), name == "boundary_exact") for st in states]
        for it in items:
            k_ = json.dumps([[(o["uuid"]) for o in it[0]], it[2]["uuids"]])
            if it[1] and k_ not in seen_s and len(it[0]) > 0:
                seen_s.add(k_)
                sens_items.append((it[0], it[2]))
        outs = pmap(replay_filter, items)
        for (objs, is_gt, P, out, _x), (n, mism) in zip(items, outs):
            ctx.traces += n
            ctx.evaluations += n
            if 0 < len(out["kept"]) < len(objs) or any(o["label"] in ("unknown", "false_positive") for o in objs):
                ctx.nontriv(json.dumps([objs, is_gt, P], sort_keys=True))
            for clause, msg, rep in mism:
                ctx.violation("filter:" + clause, msg, rep)
        ctx.log("replayed %s: %d cases" % (name, len(items)))
        if items:
            ctx.sample({"slice": name, "objs": items[len(items) // 3][0], "is_gt": items[len(items) // 3][1], "P": items[len(items) // 3][2],
                        "spec_out": items[len(items) // 3][3]}, limit=3)

    # the uuid criterion where the sensing manager applies it (every distinct pattern of listed / unlisted ground truths seen above)
    for it, (n_, mism) in zip(sens_items, pmap(replay_sensing_uuids, sens_items)):
        ctx.traces += n_
        ctx.evaluations += n_
        for clause, msg, rep in mism:
            ctx.violation("filter:" + clause, msg, rep)
    ctx.extra["sensing_manager_uuid_patterns"] = len(sens_items)

    # the manager's own wiring of the filter (objects reaching / leaving matching)
    def want(rendering, kind, fields):
        return kind == "stage"

    for _ in pipeline.run_pipeline(ctx, want):
        pass
    from . import pipeline_trace

    ctx.extra["manager_executions_validated_as_traces"] = pipeline_trace.run(
        ctx, n=150 if ctx.quick else 3000, want=lambda rendering, clause: clause.startswith(("manager-filter", "critical-filter", "raised")))
    ctx.rule = (
        "TLC evaluates the filter predicate of Filter.tla on every object of a lattice x label x attribute x confidence x point-count x uuid grid, "
        "as estimate and as ground truth, against x/y-box, distance-ring and label-only parameter sets (kept-exactly, order, idempotence, widening, "
        "FP-always-passes, result-needs-both as invariants); every evaluated state is replayed through filter_objects and filter_object_results "
        "with the objects stored in base_link (with and without transforms), in map under an ego pose, and as 2-D objects; the manager's "
        "_filter_objects is compared on the C03 scenes. Non-trivial = some but not all objects kept, or an unknown / FP-labelled object."
    )
    ctx.exhaustive = False
    ctx.assumptions += ["bounds in odd half units on integer coordinates (no object on a boundary; mean bounds chosen with sum = 2 mod 4) for every rendering that goes "
                        "through a transform; objects exactly on a bound are decided in the base_link rendering only (slice boundary_exact)"]
