"""C16 — Dataset.tla bound to load_all_datasets on generated T4 directories (engines M, R, T)."""
from __future__ import annotations

import math
import os
import random
import shutil
import tempfile

from .. import t4gen
from .. import tlc as T
from ..core import Ctx, pmap
from ..tlaval import load_dump
from .pipeline import plain


def to_py(ds):
    cats = ds["cats"]
    cats = {i + 1: c for i, c in enumerate(cats)} if not isinstance(cats, dict) else {int(k): v for k, v in cats.items()}
    return dict(samples=[dict(time=s["time"], ego=s["ego"]) for s in ds["samples"]], cats=cats, anns=[dict(a) for a in ds["anns"]])


def ang_close(a, b, tol=1e-9):
    d = (a - b) % (2 * math.pi)
    return min(d, 2 * math.pi - d) < tol


def compare_frames(frames, spec, task, frame_id, rep, mism, tol=1e-9):
    from perception_eval.common.schema import FrameID, Visibility

    if len(frames) != len(spec):
        mism.append(("frame-count", "%d frames loaded, %d samples" % (len(frames), len(spec)), rep))
        return
    for k, (f, s) in enumerate(zip(frames, spec)):
        if f.unix_time != t4gen.BASE_US + s["time"] * 500_000 or str(f.frame_name) != str(s["name"]):
            mism.append(("frame-order-or-time", "frame %d: time %s name %s, specification time unit %s name %s" % (k, f.unix_time, f.frame_name, s["time"], s["name"]), rep))
        got = {}
        for o in f.objects:
            got.setdefault(o.uuid, []).append(o)
        want = {"inst-%d" % o["uuid"]: o for o in s["objects"]}
        if set(got) != set(want) or any(len(v) != 1 for v in got.values()):
            mism.append(("object-set", "frame %d: objects %s, specification %s" % (k, sorted(got), sorted(want)), rep))
            continue
        for u, w in want.items():
            o = got[u][0]
            if o.semantic_label.label.value != w["label"]:
                mism.append(("label", "frame %d %s: label %s, specification %s" % (k, u, o.semantic_label.label.value, w["label"]), rep))
            if list(o.semantic_label.attributes) != ([t4gen.ATTR_NAME] if w["attr"] else []):
                mism.append(("attributes", "frame %d %s: attributes %s" % (k, u, o.semantic_label.attributes), rep))
            if tuple(o.state.size) != t4gen.SIZES[w["size"]]:
                mism.append(("size", "frame %d %s: size %s" % (k, u, o.state.size), rep))
            if o.pointcloud_num != w["pts"]:
                mism.append(("point-count", "frame %d %s: %s points, specification %s" % (k, u, o.pointcloud_num, w["pts"]), rep))
            if not (isinstance(o.visibility, Visibility) and o.visibility.value == w["vis"]):
                mism.append(("visibility", "frame %d %s: visibility %r, specification %s" % (k, u, o.visibility, w["vis"]), rep))
            p = w["pose"]
            if any(abs(a - b) > tol for a, b in zip(o.state.position, (p["x"], p["y"], p["z"]))) or not ang_close(o.state.orientation.yaw_pitch_roll[0], p["a"] * 2 * math.pi / 24, tol):
                mism.append(("pose:" + frame_id, "frame %d %s: pose %s yaw %r, specification %s" % (k, u, o.state.position, o.state.orientation.yaw_pitch_roll[0], p), rep))
            if o.frame_id != FrameID.from_value(frame_id) or o.unix_time != f.unix_time:
                mism.append(("object-frame-or-time", "frame %d %s: frame id %s time %s" % (k, u, o.frame_id, o.unix_time), rep))
            if task == "tracking":
                pp = [tuple(st.position) for st in (o.tracked_path or [])]
                wp = [tuple(float(v) for v in q) for q in w["past"]]
                if len(pp) != len(wp) or any(any(abs(a - b) > tol for a, b in zip(x, y)) for x, y in zip(pp, wp)):
                    mism.append(("tracked-path", "frame %d %s: past positions %s, specification %s" % (k, u, pp, wp), rep))
            elif o.tracked_path is not None:
                mism.append(("tracked-path", "frame %d %s: tracked path present outside tracking" % (k, u), rep))
        # the stored ego -> map transform maps ego-frame poses onto map-frame poses
        try:
            M = f.transforms[(FrameID.BASE_LINK, FrameID.MAP)]
            e = s["ego"]
            if abs(M.position[0] - e["x"]) > tol or abs(M.position[1] - e["y"]) > tol or not ang_close(M.rotation.yaw_pitch_roll[0], e["q"] * math.pi / 2, tol):
                mism.append(("ego-to-map", "frame %d: ego->map %s yaw %r, specification %s" % (k, list(M.position), M.rotation.yaw_pitch_roll[0], e), rep))
        except Exception as ex:
            mism.append(("ego-to-map", "frame %d: no ego->map transform (%r)" % (k, ex), rep))


def replay(arg):
    from perception_eval.common.dataset import load_all_datasets
    from perception_eval.common.evaluation_task import EvaluationTask
    from perception_eval.common.label import LabelConverter
    from perception_eval.common.schema import FrameID

    ds, merge, out, idx = arg
    d = tempfile.mkdtemp(prefix="verif_t4_")
    mism = []
    n = 0
    try:
        chan = "LIDAR_TOP" if idx % 2 == 0 else "LIDAR_CONCAT"
        conv = "names" if idx % 3 else "alias"
        t4gen.write(d, to_py(ds), lidar_channel=chan, vis_convention=conv)
        rep = {"dataset": ds, "merge": merge, "lidar": chan, "visibility_convention": conv}
        # a dataset with two or more samples: after an interpolating lookup half way between the first two samples the loaded frames must still
        # describe their own samples (checked by the ordinary comparison below, which runs on the frames after the lookup)
        def lookup_between(frames_):
            from perception_eval.common.dataset import get_interpolated_now_frame

            if len(frames_) >= 2 and frames_[0].unix_time < frames_[1].unix_time:
                try:
                    get_interpolated_now_frame(frames_, (frames_[0].unix_time + frames_[1].unix_time) // 2, 10**12)
                except Exception:
                    pass      # what an interpolating lookup answers is C17's subject; here it only has to leave the loaded frames alone

        for key, task, fid in (("det_ego", "detection", "base_link"), ("det_map", "detection", "map"), ("trk_map", "tracking", "map"), ("trk_ego", "tracking", "base_link"),
                               ("det_ego", "sensing", "base_link")):
            times_ = [s_["time"] for s_ in ds["samples"]]
            if task == "tracking" and times_ != sorted(times_):
                continue      # a sample table that is not chronological (several recordings): the look-back of tracking is not specified for it
            n += 1
            et = EvaluationTask.from_value(task)
            try:
                frames = load_all_datasets([d], et, LabelConverter(et, merge, "autoware"), FrameID.from_value(fid))
            except Exception as ex:
                mism.append(("raised", "load_all_datasets(%s, %s) raised %r" % (task, fid, ex), rep))
                continue
            if idx % 2 == 0:
                lookup_between(frames)
            compare_frames(frames, out[key], task, fid, dict(rep, task=task, frame_id=fid), mism)
    finally:
        shutil.rmtree(d, ignore_errors=True)
    return n, mism


def random_dataset(rng):
    n = rng.randint(5, 20)
    times = sorted(rng.sample(range(0, 60), n))
    from pyquaternion import Quaternion

    def ego_pose():
        e = dict(x=rng.uniform(-500, 500), y=rng.uniform(-500, 500), yaw=rng.uniform(-math.pi, math.pi))
        if rng.random() < 0.5:   # a tilted ego (slope / bank): full 3-D rotation and a height
            q = Quaternion(axis=[0, 0, 1], radians=e["yaw"]) * Quaternion(axis=[0, 1, 0], radians=rng.uniform(-0.15, 0.15)) * Quaternion(axis=[1, 0, 0], radians=rng.uniform(-0.1, 0.1))
            e["quat"] = [float(v) for v in q.elements]
            e["z"] = rng.uniform(-3, 3)
        return e

    samples = [dict(time=t, ego=ego_pose()) for t in times]
    cats = {i: rng.choice(["car", "pedestrian.adult", "bus", "movable_object.barrier", "unregistered.thing", "vehicle.truck", "bicycle"]) for i in range(1, 7)}
    anns = []
    for i in cats:
        present = False
        for k in range(1, n + 1):
            if rng.random() < (0.8 if present else 0.4):
                present = True
                anns.append(dict(sample=k, inst=i, x=rng.uniform(-500, 500), y=rng.uniform(-500, 500), z=rng.uniform(-2, 2), yaw=rng.uniform(-math.pi, math.pi),
                                 size_wlh=(rng.uniform(0.5, 3), rng.uniform(0.5, 12), rng.uniform(1, 3)), pts=rng.randint(0, 500), vis=rng.choice(t4gen.VIS_NAMES),
                                 attr=rng.random() < 0.3))
            else:
                present = False
    return dict(samples=samples, cats=cats, anns=anns)


def replay_random(arg):
    """float datasets: structure exact, poses within 1e-6, ego<->map consistency through the stored transform"""
    from perception_eval.common.dataset import load_all_datasets
    from perception_eval.common.evaluation_task import EvaluationTask
    from perception_eval.common.label import LabelConverter
    from perception_eval.common.schema import FrameID

    seed, k = arg
    rng = random.Random(seed * 65537 + k)
    ds = random_dataset(rng)
    d = tempfile.mkdtemp(prefix="verif_t4r_")
    mism = []
    rep = {"seed": seed, "k": k, "samples": len(ds["samples"]), "annotations": len(ds["anns"])}
    try:
        t4gen.write(d, ds, vis_convention="names" if k % 2 else "alias")
        et = EvaluationTask.DETECTION
        fe = load_all_datasets([d], et, LabelConverter(et, False, "autoware"), FrameID.BASE_LINK)
        fm = load_all_datasets([d], et, LabelConverter(et, False, "autoware"), FrameID.MAP)
        if len(fe) != len(ds["samples"]) or len(fm) != len(ds["samples"]):
            mism.append(("frame-count", "frames %d/%d for %d samples" % (len(fe), len(fm), len(ds["samples"])), rep))
            return 1, mism
        for kk, (a, b) in enumerate(zip(fe, fm)):
            want = {"inst-%d" % an["inst"]: an for an in ds["anns"] if an["sample"] == kk + 1}
            if sorted(o.uuid for o in a.objects) != sorted(want) or sorted(o.uuid for o in b.objects) != sorted(want):
                mism.append(("object-set", "frame %d object sets differ from annotations" % kk, rep))
                continue
            if a.unix_time != t4gen.BASE_US + ds["samples"][kk]["time"] * 500_000:
                mism.append(("frame-order-or-time", "frame %d time" % kk, rep))
            M = a.transforms[(FrameID.BASE_LINK, FrameID.MAP)]
            bm = {o.uuid: o for o in b.objects}
            for o in a.objects:
                an = want[o.uuid]
                om = bm[o.uuid]
                if any(abs(x - y) > 1e-6 for x, y in zip(om.state.position, (an["x"], an["y"], an["z"]))) or not ang_close(om.state.orientation.yaw_pitch_roll[0], an["yaw"], 1e-6):
                    mism.append(("pose:map", "map pose of %s differs from the annotation" % o.uuid, rep))
                p, r = M.transform(o.state.position, o.state.orientation)
                if any(abs(x - y) > 1e-6 for x, y in zip(p, om.state.position)) or abs(r.rotation_matrix - om.state.orientation.rotation_matrix).max() > 1e-6:
                    mism.append(("pose:base_link", "ego->map applied to the ego pose of %s misses its map pose by %s" % (o.uuid, [x - y for x, y in zip(p, om.state.position)]), rep))
                if o.pointcloud_num != an["pts"] or o.visibility is None or o.visibility.value != an["vis"]:
                    mism.append(("point-count-or-visibility", "object %s" % o.uuid, rep))
    except Exception as ex:
        mism.append(("raised", "raised %r" % (ex,), rep))
    finally:
        shutil.rmtree(d, ignore_errors=True)
    return 1, mism


def run(ctx: Ctx):
    consts = dict(TimeLists="{<<0>>, <<0,1>>, <<0,1,2>>, <<0,1,9>>, <<4,0>>, <<2,5,0>>, <<0,4,5>>, <<0,4>>}",
                  EgoPoses="{[x |-> 0, y |-> 0, q |-> 0],[x |-> 10, y |-> 4, q |-> 1],[x |-> -7, y |-> 3, q |-> 3]}",
                  Cats='{"car","pedestrian.adult","bus","movable_object.barrier","unregistered.thing"}', AnnPoses="{<<1,2>>,<<5,-2>>,<<-3,0>>}", Sizes="{1,2}",
                  PtsSet="{0,7}", VisSet='{"full","most","partial","none"}', MaxInst="2", Sample="3" if ctx.quick else "6")
    res = T.run_model("MC_Dataset", "MCDS_" + ctx.pid, consts, invariants=["LawFrames", "LawEgoMap"], model_values=(), tlc_kwargs=dict(dump=True, allow_violation=False, seed=ctx.seed, timeout=3000))
    ctx.add_tlc(res, "MC_Dataset (<= 3 samples, <= 2 instances)", must_take=["Next"])
    states, _ = load_dump(res.dump_path, must_contain='phase = "done"')
    os.remove(res.dump_path)
    items = [(plain(st["ds"]), st["merge"], plain(st["out"]), i) for i, st in enumerate(states)]
    if ctx.quick and len(items) > 500:
        items = items[:: len(items) // 500 + 1]
    outs = pmap(replay, items, chunks=2)
    for it, (n, mism) in zip(items, outs):
        ctx.traces += n
        ctx.evaluations += n
        if len(it[0]["anns"]) >= 2:
            ctx.nontrivial_count += 1
        for clause, msg, rep in mism:
            ctx.violation(clause, msg, rep)
    it = items[len(items) // 2]
    ctx.sample({"dataset": it[0], "merge": it[1], "spec_frames(det, base_link)": it[2]["det_ego"]})
    nr = 40 if ctx.quick else 300
    outs = pmap(replay_random, [(ctx.seed, k) for k in range(nr)], chunks=1)
    for n, mism in outs:
        ctx.traces += n
        ctx.evaluations += n
        ctx.nontrivial_count += 1
        for clause, msg, rep in mism:
            ctx.violation("random:" + clause, msg, rep)
    # 2-D reading of the same tables (Dataset2D.tla): object_ann per camera, ROI truncation, traffic-light regulatory-element merging
    from . import dataset2d

    dataset2d.run(ctx)
    ctx.exhaustive = False
    ctx.rule = (
        "TLC builds sampled datasets (1-3 samples incl. a 4.5 s gap, 3 lattice ego poses, 2 instances with categories inside / outside the label "
        "table appearing and disappearing, lattice poses, 2 sizes, point counts, 4 visibility levels, attributes) and what loading must yield for "
        "detection / tracking x base_link / map, checking one frame per sample in order, one object per annotation and ego->map consistency; each "
        "dataset is written as a T4 directory (LIDAR_TOP / LIDAR_CONCAT, visibility by level name / by v0-40 alias) and loaded with the real "
        "load_all_datasets for detection, tracking and sensing in both frames, merge on/off, and compared field by field (times, names, uuids, "
        "labels, attributes, sizes, points, visibility member, poses to 1e-9, tracked past positions, stored ego->map transform). Random float "
        "datasets (5-20 samples, 6 instances) are loaded in both frames and checked for structure and ego->map consistency to 1e-6. The 2-D loader "
        "(Dataset2D.tla: <= 2 samples, 3 cameras some without data, 3 instances on 2 regulatory elements, <= 4 annotations in table order, 3 tasks x "
        "2 label families, any requested camera list in rotated order) is replayed on generated nuImages tables: objects in table order, camera, "
        "uuid, label, attributes, truncated ROI, stored ego->map transform, traffic-light merging incl. the three-label error."
    )
    ctx.assumptions += ["lidar calibrated at the ego origin (T4 convention)", "lattice poses: quarter-turn ego yaw, 15-degree object yaw; random datasets use arbitrary yaw and, for half of the samples, pitch / roll / height of the ego"]
