"""Dataset2D.tla bound to load_all_datasets for 2-D tasks (engines M and R) — part of the C16 check."""
from __future__ import annotations

import os
import shutil
import tempfile

from .. import t4gen
from .. import tlc as T
from ..core import pmap
from ..tlaval import load_dump
from .pipeline import plain

CAMS = ["cam_front", "cam_back", "cam_front_left"]


def replay(arg):
    from perception_eval.common.dataset import load_all_datasets
    from perception_eval.common.evaluation_task import EvaluationTask
    from perception_eval.common.label import LabelConverter
    from perception_eval.common.schema import FrameID

    ds, req, task, family, out, idx = arg
    mism = []
    rep = {"dataset": ds, "requested_cameras": req, "task": task, "label_family": family, "spec_frames": out}
    d = tempfile.mkdtemp(prefix="verif_t42d_")
    try:
        insts = ds["insts"]
        insts = {i + 1: v for i, v in enumerate(insts)} if not isinstance(insts, dict) else {int(k): v for k, v in insts.items()}
        pyds = dict(samples=[dict(time=s["time"], cams=sorted(s["cams"])) for s in ds["samples"]], insts=insts, anns=[dict(a) for a in ds["anns"]], cameras=CAMS)
        t4gen.write2d(d, pyds)
        et = EvaluationTask.from_value(task)
        # the order of the requested list must not matter: rotate it by the case index
        order = sorted(req)
        order = order[idx % len(order):] + order[: idx % len(order)]
        try:
            frames = load_all_datasets([d], et, LabelConverter(et, False, family), [FrameID.from_value(c) for c in order])
        except AssertionError as ex:
            frames = None
            if not any(f["err"] for f in out):
                mism.append(("raised", "raised %r" % (ex,), rep))
        if frames is not None:
            if any(f["err"] for f in out):
                mism.append(("merge-error-not-raised", "three different labels on one regulatory element were merged silently", rep))
            elif len(frames) != len(out):
                mism.append(("frame-count", "%d frames for %d samples" % (len(frames), len(out)), rep))
            else:
                for k, (f, s) in enumerate(zip(frames, out)):
                    if f.unix_time != t4gen.BASE_US + s["time"] * 500_000 or str(f.frame_name) != str(s["name"]):
                        mism.append(("frame-order-or-time", "frame %d: time %s name %s" % (k, f.unix_time, f.frame_name), rep))

                    def proj(o):
                        return (o.uuid, o.frame_id.value, o.semantic_label.label.value, tuple(o.roi.offset) + tuple(o.roi.size) if o.roi is not None else ())

                    def want(o):
                        u = o["uuid"]
                        uuid = str(u[1]) if u[0] == "reg" else "inst-%d" % u[1]
                        return (uuid, o["cam"], o["label"], tuple(o["roi"]))

                    got = [proj(o) for o in f.objects]
                    if s["kind"] == "merged":
                        if sorted(got) != sorted(want(o) for o in s["objects"]):
                            mism.append(("merged-traffic-lights", "frame %d: %s, specification %s" % (k, sorted(got), sorted(want(o) for o in s["objects"])), rep))
                    else:
                        w = [want(o) for o in s["objects"]]
                        if got != w:
                            clause = "object-set" if sorted(got) != sorted(w) else "object-order"
                            if sorted(g[:3] for g in got) == sorted(x[:3] for x in w) and clause == "object-set":
                                clause = "roi"
                            mism.append((clause, "frame %d: %s, specification %s" % (k, got, w), rep))
                        for o, so in zip(f.objects, s["objects"]):
                            if list(o.semantic_label.attributes) != ([t4gen.ATTR_NAME] if so["attr"] else []):
                                mism.append(("attributes", "frame %d: attributes %s" % (k, o.semantic_label.attributes), rep))
                            if o.unix_time != f.unix_time or o.semantic_score != 1.0:
                                mism.append(("object-time-or-score", "frame %d object %s" % (k, o.uuid), rep))
                    # the ego->map transform of the sample is stored with the frame whenever a requested camera has (key-frame) data in it
                    has = bool(set(req) & set(ds["samples"][k]["cams"]))
                    try:
                        M = f.transforms[(FrameID.BASE_LINK, FrameID.MAP)]
                    except Exception:
                        M = None
                    if has and (M is None or any(abs(a - b) > 1e-9 for a, b in zip(M.position, (3.0 * (k + 1), 1.0, 0.0))) or abs(M.rotation.yaw_pitch_roll[0] - 0.2 * (k + 1)) > 1e-9):
                        mism.append(("transforms", "frame %d: stored ego->map transform %s" % (k, None if M is None else (list(M.position), M.rotation.yaw_pitch_roll[0])), rep))
                    if not has and M is not None:
                        mism.append(("transforms", "frame %d: a transform is stored although no requested camera has data" % k, rep))
    except Exception as ex:
        mism.append(("raised", "raised %r" % (ex,), rep))
    finally:
        shutil.rmtree(d, ignore_errors=True)
    return 1, mism


def run(ctx):
    consts = dict(Cams='{"cam_front","cam_back","cam_front_left"}', TimeLists="{<<0>>, <<0,1>>, <<3,7>>}", CatsAw='{"car","pedestrian.adult","bicycle","unregistered.thing"}',
                  CatsTl='{"green","red","unknown","red_left","crosswalk_unknown_thing"}',
                  Boxes="{<<107,52,209,91>>, <<0,0,6400,3600>>, <<999,1001,1000,1010>>, <<55,9,128,64>>}", MaxInst="3", Sample="3" if ctx.quick else "12")
    res = T.run_model("MC_Dataset2D", "MCDS2_" + ctx.pid, consts, invariants=["LawFrames2D", "LawCameraMonotone", "LawMerged"], model_values=(),
                      tlc_kwargs=dict(dump=True, allow_violation=False, seed=ctx.seed, timeout=3000))
    ctx.add_tlc(res, "MC_Dataset2D (<= 2 samples, 3 cameras, 3 instances on 2 regulatory elements, <= 4 annotations)", must_take=["Next"])
    states, _ = load_dump(res.dump_path, must_contain='phase = "done"')
    os.remove(res.dump_path)
    items = [(plain(st["ds"]), sorted(st["req"]), st["task"], st["family"], plain(st["out"]), i) for i, st in enumerate(states)]
    if ctx.quick and len(items) > 600:
        items = items[:: len(items) // 600 + 1]
    outs = pmap(replay, items, chunks=2)
    nmerged = 0
    for it, (n, mism) in zip(items, outs):
        ctx.traces += n
        ctx.evaluations += n
        if len(it[0]["anns"]) >= 2:
            ctx.nontrivial_count += 1
        if it[2] == "classification2d" and it[3] == "traffic_light":
            nmerged += 1
        for clause, msg, rep in mism:
            ctx.violation("2d:" + clause, msg, rep)
    ctx.extra["datasets_loaded_for_2d_tasks"] = len(items)
    ctx.extra["of_which_traffic_light_classification_merging"] = nmerged
    if items:
        it = items[len(items) // 3]
        ctx.sample({"dataset_2d": it[0], "requested_cameras": it[1], "task": it[2], "label_family": it[3], "spec_frames": it[4]})
    return len(items)
