"""Engine T for the manager in TRACKING mode: random moving-ego histories through PerceptionEvaluationManager.add_frame_result /
get_scene_result, rendered in base_link and in map; per-frame CLEAR([previous frame, current frame]) and scene CLEAR([[]] + frames)
are validated by TLC against Clear.tla (Trace_Clear), and the two renderings are compared (C07)."""
from __future__ import annotations

import json
import math
import random

from .. import trace
from ..core import pmap
from . import pipeline
from .clear import _bucket

TARGETS = ["car", "pedestrian"]
THR = 1.0


def _cfg():
    return dict(targets=TARGETS, policy="DEFAULT", radius=[], cd=[2, 2], pd=[],
                mfilter=dict(xmax=[199, 199], ymax=[199, 199], dmax=[], dmin=[], minPts=[0, 0], conf=[], uuids=False, ignoreAttr=False))


def _scene_history(rng):
    """ego-relative scene history: list of frames, each (gts, ests) with dict records"""
    nfr = rng.choice([2, 3, 4, 6, 10])
    ntr = rng.randint(1, 6)
    tracks = {k: dict(x=rng.uniform(-40, 40), y=rng.uniform(-40, 40), vx=rng.uniform(-2, 2), vy=rng.uniform(-2, 2), label=rng.choice(["car", "car", "pedestrian"])) for k in range(1, ntr + 1)}
    assign = {k: k for k in tracks}
    nid = ntr + 1
    frames = []
    # in some histories one label vanishes from the estimates for a frame in the middle (track lost) and is re-acquired afterwards, possibly
    # under new ids: the frame without any result of that label is still the `previous frame` of the next one
    gap_label = rng.choice(["car", "pedestrian"]) if (nfr >= 3 and rng.random() < 0.5) else None
    gap_frame = rng.randint(1, nfr - 2) if gap_label else -1
    for t in range(nfr):
        if t == gap_frame + 1 and gap_label:
            for k_ in tracks:
                if tracks[k_]["label"] == gap_label and rng.random() < 0.7:
                    assign[k_] = nid
                    nid += 1
        if t > 0:
            u = rng.random()
            ks = list(tracks)
            if u < 0.2:
                assign[rng.choice(ks)] = nid
                nid += 1
            elif u < 0.3 and len(ks) >= 2:
                a, b = rng.sample(ks, 2)
                assign[a], assign[b] = assign[b], assign[a]
        gts, ests = [], []
        for k, tr in tracks.items():
            if rng.random() < 0.1:
                continue
            gx, gy = tr["x"] + tr["vx"] * t, tr["y"] + tr["vy"] * t
            gts.append(dict(id=k, x=gx, y=gy, label=tr["label"]))
            if rng.random() < 0.85 and not (t == gap_frame and tr["label"] == gap_label):
                off = rng.choice([0.1, 0.3, 0.6, 1.6, 2.5])
                ang = rng.uniform(0, 2 * math.pi)
                el = tr["label"] if rng.random() < 0.9 else "unknown"
                ests.append(dict(id=assign[k], x=gx + off * math.cos(ang), y=gy + off * math.sin(ang), label=el, conf=rng.uniform(0.3, 0.99)))
        for _ in range(rng.choice([0, 0, 1]) if not (t == gap_frame and gap_label == "car") else 0):
            ests.append(dict(id=nid, x=rng.uniform(-60, 60), y=rng.uniform(-60, 60), label="car", conf=rng.uniform(0.3, 0.99)))
            nid += 1
        frames.append((gts, ests))
    return frames


def _record(r, mode_value):
    e = r.estimated_object
    if r.ground_truth_object is None:
        return dict(e=int(e.uuid[1:]), el=e.semantic_label.label.value, g=0, gl="none", s4=0), None
    g = r.ground_truth_object
    v = r.center_distance.value
    return dict(e=int(e.uuid[1:]), el=e.semantic_label.label.value, g=int(g.uuid[1:]), gl=g.semantic_label.label.value, s4=int(round(min(v, 1000.0) * 1e4))), v


def _run_rendering(frames, rendering, rng_ego):
    """-> per-frame and scene summaries + trace events (tid unset)"""
    from ..build import AW, EgoPose, frame_gt, obj3d
    from perception_eval.evaluation.matching import MatchingMode
    from perception_eval.evaluation.result.perception_frame_config import CriticalObjectFilterConfig, PerceptionPassFailConfig

    cfg = _cfg()
    mgr = pipeline.manager_for(cfg, "map" if rendering == "map" else "base_link", task="tracking")
    ex, ey, eyaw = rng_ego
    # in every other history the frame-level configurations list the labels in the opposite order to the evaluation configuration
    fl = TARGETS[::-1] if int(abs(ex) * 10) % 2 else TARGETS
    crit = CriticalObjectFilterConfig(mgr.evaluator_config, fl, max_x_position_list=[90.0, 90.0], max_y_position_list=[90.0, 90.0])
    pfc = PerceptionPassFailConfig(mgr.evaluator_config, fl, [2.0, 2.0])
    groups, summary, ok = [], [], True
    prev_buckets = {lb: [] for lb in TARGETS}
    all_buckets = {lb: [[]] for lb in TARGETS}
    all_g = {lb: 0 for lb in TARGETS}
    for t, (gts, ests) in enumerate(frames):
        ego = EgoPose(ex + 3.0 * t, ey - 1.0 * t, 0.0, eyaw + 0.2 * t) if rendering == "map" else None
        fr_name = "map" if rendering == "map" else "base_link"
        G = [obj3d((g["x"], g["y"], 0.0), yaw=0.3, label=g["label"], uuid="g%d" % g["id"], frame=fr_name, ego=ego, time=1000 * (t + 1)) for g in gts]
        E = [obj3d((e["x"], e["y"], 0.0), yaw=0.3, label=e["label"], score=e["conf"], uuid="e%d" % e["id"], frame=fr_name, ego=ego, time=1000 * (t + 1)) for e in ests]
        fgt = frame_gt(G, time=1000 * (t + 1), name=str(t), ego=ego)
        res = mgr.add_frame_result(1000 * (t + 1), fgt, E, crit, pfc)
        ts = res.metrics_score.tracking_scores[0]
        assert ts.matching_mode == MatchingMode.CENTERDISTANCE
        for li, lb in enumerate(TARGETS):
            cur = _bucket(res.object_results, lb, TARGETS)
            g_lb = sum(1 for o in res.frame_ground_truth.objects if o.semantic_label.label.value == lb)
            evs = [dict(tid=0, ev="Begin", label=lb, policy="DEFAULT", thr4=int(THR * 1e4), maximize=0, g=g_lb)]
            for bucket in (prev_buckets[lb], cur):
                recs = []
                for r in bucket:
                    rec, v = _record(r, None)
                    if v is not None and abs(v - THR) < 1e-3:
                        ok = False
                    recs.append(rec)
                evs.append(dict(tid=0, ev="Frame", res=recs))
            r_ = ts.clears[li].results
            end = dict(tid=0, ev="End", tp=int(r_["tp"]), fp=int(r_["fp"]), idsw=int(r_["id_switch"]), n=int(r_["predict_num"]), sum4=int(round(r_["tp_matching_score"] * 1e4)),
                       mota6=-1 if r_["MOTA"] == float("inf") else int(round(r_["MOTA"] * 1e6)), motp4=-1 if r_["MOTP"] == float("inf") else int(round(r_["MOTP"] * 1e4)))
            evs.append(end)
            groups.append((evs, dict(kind="frame", frame=t, label=lb, rendering=rendering, results=end)))
            summary.append(("frame", t, lb, end["tp"], end["fp"], end["idsw"], end["mota6"], end["motp4"]))
            prev_buckets[lb] = cur
            all_buckets[lb].append(cur)
            all_g[lb] += g_lb
    sc = mgr.get_scene_result()
    ts = sc.tracking_scores[0]
    for li, lb in enumerate(TARGETS):
        evs = [dict(tid=0, ev="Begin", label=lb, policy="DEFAULT", thr4=int(THR * 1e4), maximize=0, g=all_g[lb])]
        for bucket in all_buckets[lb]:
            evs.append(dict(tid=0, ev="Frame", res=[_record(r, None)[0] for r in bucket]))
        r_ = ts.clears[li].results
        end = dict(tid=0, ev="End", tp=int(r_["tp"]), fp=int(r_["fp"]), idsw=int(r_["id_switch"]), n=int(r_["predict_num"]), sum4=int(round(r_["tp_matching_score"] * 1e4)),
                   mota6=-1 if r_["MOTA"] == float("inf") else int(round(r_["MOTA"] * 1e6)), motp4=-1 if r_["MOTP"] == float("inf") else int(round(r_["MOTP"] * 1e4)))
        evs.append(end)
        groups.append((evs, dict(kind="scene", label=lb, rendering=rendering, frames=len(frames), results=end)))
        summary.append(("scene", -1, lb, end["tp"], end["fp"], end["idsw"], end["mota6"], end["motp4"]))
    return groups, summary, ok


def _one(arg):
    seed, k, renderings = arg
    rng = random.Random(seed * 92821 + k)
    while True:
        frames = _scene_history(rng)
        ego0 = (rng.uniform(-300, 300), rng.uniform(-300, 300), rng.uniform(-3, 3))
        out = {}
        good = True
        for rd in renderings:
            groups, summary, ok = _run_rendering(frames, rd, ego0)
            out[rd] = (groups, summary)
            good = good and ok
        if good:
            return out


def run(ctx, renderings=("base_link", "map"), n=None, want=lambda kind: True, compare=False):
    n = n or (25 if ctx.quick else 250)
    outs = pmap(_one, [(ctx.seed, k, tuple(renderings)) for k in range(n)], chunks=1)
    evs, info = [], {}
    tid = 0
    for k, out in enumerate(outs):
        for rd in renderings:
            for group, inf in out[rd][0]:
                tid += 1
                info[tid] = dict(inf, history=k)
                for ev in group:
                    ev = dict(ev)
                    ev["tid"] = tid
                    evs.append(ev)
        if compare and len(renderings) == 2:
            a, b = out[renderings[0]][1], out[renderings[1]][1]
            for x, y in zip(a, b):
                if x[:6] != y[:6] or abs(x[6] - y[6]) > 2 or abs(x[7] - y[7]) > 2:
                    ctx.violation("tracking-ego-vs-map:%s" % x[0], "history %d %s %s: ego rendering %s, map rendering %s" % (k, x[0], x[2], x[3:], y[3:]),
                                  {"history": k, "ego": x, "map": y})
    rej = trace.validate(ctx, "Trace_Clear", evs, tag="Trace_Clear_mgr_" + ctx.pid)
    ctx.traces += tid
    ctx.evaluations += tid
    ctx.nontrivial_count += sum(1 for i in info.values() if i["results"]["tp"] + i["results"]["fp"] > 0)
    for t_, line, clause in rej:
        i = info[t_]
        if clause.startswith("driver:"):
            from .. import tlc as T

            raise T.TlcError("tracking driver produced an ill-formed history: %s" % clause)
        if want(i["kind"]):
            ctx.violation("manager-tracking:%s:%s:%s" % (i["kind"], "map" if i["rendering"] == "map" else "ego", clause), "%s -> %s" % (i, clause), i)
    if info:
        ctx.sample(info[max(1, tid // 2)])
    return tid
