"""MetricsShape.tla bound to MetricsScore through the real manager (engines M, R): which metric families a task evaluates, one score per
threshold row in the order of the modes, the ground-truth count added exactly once per MetricsScore (frame level and scene level)."""
from __future__ import annotations

import os
import shutil
import tempfile

from .. import tlc as T
from ..core import Ctx, pmap
from ..tlaval import load_dump
from .pipeline import plain

MODE_KEY = {"center": "center_distance_thresholds", "plane": "plane_distance_thresholds", "iou2d": "iou_2d_thresholds", "iou3d": "iou_3d_thresholds"}
MODE_ENUM = {"center": "CENTERDISTANCE", "plane": "PLANEDISTANCE", "iou2d": "IOU2D", "iou3d": "IOU3D"}
ROWVAL = {"center": [1.0, 2.0], "plane": [2.0, 3.0], "iou2d": [0.5, 0.3], "iou3d": [0.4, 0.2]}
LABELS = ["car", "pedestrian"]


def replay(arg):
    from perception_eval.common.dataset import FrameGroundTruth
    from perception_eval.config import PerceptionEvaluationConfig
    from perception_eval.evaluation.result.perception_frame_config import CriticalObjectFilterConfig, PerceptionPassFailConfig
    from perception_eval.manager import PerceptionEvaluationManager

    from ..build import frame_gt, obj2d, obj3d

    task, rows, gt, maps, tracks, cls = arg
    rep = {"task": task, "rows": rows, "ground_truths": gt, "spec": {"maps": maps, "tracking_scores": tracks, "classification_scores": cls}}
    mism = []
    is3d = task in ("detection", "tracking")
    d = {"evaluation_task": task, "target_labels": list(LABELS), "label_prefix": "autoware", "merge_similar_labels": False}
    if is3d:
        d.update(max_x_position=100.0, max_y_position=100.0, min_point_numbers=[0, 0])
    if task != "classification2d":
        for mode, key in MODE_KEY.items():
            # a row is a list with one value per label; k rows of distinct values
            d[key] = [[ROWVAL[mode][i] + 0.01 * j for j in range(len(LABELS))] for i in range(rows[mode])] or None
    tmp = tempfile.mkdtemp(prefix="verif_shape_")
    try:
        try:
            ec = PerceptionEvaluationConfig([], "base_link" if is3d else ["cam_front", "cam_back"], tmp, d)
            mgr = PerceptionEvaluationManager(ec)
        finally:
            shutil.rmtree(tmp, ignore_errors=True)
        crit = CriticalObjectFilterConfig(ec, list(LABELS), **(dict(max_x_position_list=[100.0, 100.0], max_y_position_list=[100.0, 100.0]) if is3d else {}))
        pfc = PerceptionPassFailConfig(ec, list(LABELS), [1.0, 1.0] if is3d else None)
        frames = 2
        for k in range(frames):
            if is3d:
                G = [obj3d((5.0 + 6 * i, 2.0, 0.0), label=LABELS[i % 2], vid=i + 1, uuid="g%d" % i, time=1000 * (k + 1)) for i in range(gt)]
                E = [obj3d((5.0, 2.0, 0.0), label="car", score=0.8, vid=1, uuid="e0", time=1000 * (k + 1))]
                fgt = frame_gt(G, time=1000 * (k + 1), name=str(k))
            else:
                G = [obj2d((10 + 40 * i, 10), size=(20, 20), label=LABELS[i % 2], vid=i + 1, uuid="g%d" % i, time=1000 * (k + 1)) for i in range(gt)]
                E = [obj2d((10, 10), size=(20, 20), label="car", score=0.8, vid=1, uuid="g0", time=1000 * (k + 1))]
                fgt = FrameGroundTruth(unix_time=1000 * (k + 1), frame_name=str(k), objects=G)
            fr = mgr.add_frame_result(1000 * (k + 1), fgt, E, crit, pfc)
            check_score(fr.metrics_score, "frame %d" % k, gt, maps, tracks, cls, rep, mism, rows)
        scene = mgr.get_scene_result()
        check_score(scene, "scene of %d frames" % frames, frames * gt, maps, tracks, cls, rep, mism, rows)
        if list(scene.used_frame) != list(range(frames)) or list(scene.skipped_frame) != [] or scene.num_frame != frames:
            mism.append(("shape-frames", "scene of %d frames: num_frame %r, used %r, skipped %r" % (frames, scene.num_frame, scene.used_frame, scene.skipped_frame), rep))
    except Exception as ex:
        mism.append(("shape-raised", "raised %r" % (ex,), rep))
    return 1, mism


def check_score(ms, where, gt_total, maps, tracks, cls, rep, mism, rows):
    def shape(scores):
        out = []
        for s in scores:
            # (a Map keeps its row; a tracking score hands one entry to each label's CLEAR)
            thr = list(s.matching_threshold_list) if hasattr(s, "matching_threshold_list") else [c.matching_threshold_list[0] for c in s.clears]
            mode = s.matching_mode.name
            out.append((mode, thr))
        return out

    def want(spec):
        return [(MODE_ENUM[m], [ROWVAL[m][i - 1] + 0.01 * j for j in range(len(LABELS))]) for m, i in spec]

    for name, got, spec in (("maps", shape(ms.maps), want(maps)), ("tracking_scores", shape(ms.tracking_scores), want(tracks))):
        if len(got) != len(spec) or any(a[0] != b[0] or any(abs(x - y) > 1e-12 for x, y in zip(a[1], b[1])) or len(a[1]) != len(b[1]) for a, b in zip(got, spec)):
            mism.append(("shape-" + name, "%s: %s = %s, specification %s" % (where, name, got, spec), rep))
    if len(ms.classification_scores) != len(cls):
        mism.append(("shape-classification_scores", "%s: %d classification scores, specification %d" % (where, len(ms.classification_scores), len(cls)), rep))
    if len(ms.prediction_scores) != 0:
        mism.append(("shape-prediction_scores", "%s: prediction scores %r" % (where, ms.prediction_scores), rep))
    if ms.num_ground_truth != gt_total:
        mism.append(("shape-ground-truth-count", "%s: num_ground_truth %r, %d ground truths were evaluated (counted exactly once)" % (where, ms.num_ground_truth, gt_total), rep))
    # every score of a family speaks of every target label, in the order of the label list
    for s in list(ms.maps):
        if [str(a.target_labels[0].value) for a in s.aps] != LABELS:
            mism.append(("shape-labels", "%s: a Map holds APs for %s" % (where, [str(a.target_labels[0]) for a in s.aps]), rep))
            break
    for s in list(ms.tracking_scores):
        if [str(c.target_labels[0].value) for c in s.clears] != LABELS:
            mism.append(("shape-labels", "%s: a tracking score holds CLEARs for %s" % (where, [str(c.target_labels[0]) for c in s.clears]), rep))
            break


def run(ctx: Ctx):
    res = T.run_model("MC_MetricsShape", "MCMS_" + ctx.pid, dict(MaxRows="1" if ctx.quick else "2", MaxGt="2"),
                      invariants=["CountedOnce", "NeverOvercounted", "FamiliesOfTask", "TrackingMirrorsDetection", "No3DModesIn2D", "OneScorePerRow", "Terminates"],
                      model_values=(), tlc_kwargs=dict(dump=True, allow_violation=False, timeout=1200))
    ctx.add_tlc(res, "MC_MetricsShape (5 tasks x 0..%s rows per mode x 0..2 ground truths)" % ("1" if ctx.quick else "2"), must_take=["EvalDetection", "EvalTracking", "EvalClassification"])
    states, _ = load_dump(res.dump_path, must_contain='pc = "done"')
    os.remove(res.dump_path)
    items = []
    for st in states:
        if st["pc"] != "done":
            continue
        items.append((st["task"], plain(st["rows"]), st["gt"], [tuple(x) for x in plain(st["maps"])], [tuple(x) for x in plain(st["tracks"])], [tuple(x) for x in plain(st["cls"])]))
    outs = pmap(replay, items)
    for it, (n, mism) in zip(items, outs):
        ctx.traces += n
        ctx.evaluations += n
        if it[2] > 0 and (len(it[3]) > 1 or it[5]):
            ctx.nontrivial_count += 1
        for clause, msg, rep in mism:
            ctx.violation(clause, msg, rep)
    ctx.extra["metrics_shape_states_replayed"] = len(items)
    return len(items)
