"""C17 — Timeline.tla bound to get_now_frame / get_interpolated_now_frame / manager.get_ground_truth_now_frame (engines M, R, T)."""
from __future__ import annotations

import math
import os
import random

import numpy as np

from .. import tlc as T
from .. import trace
from ..core import Ctx, pmap
from ..tlaval import load_dump
from .pipeline import plain

INV = ["LawWithin", "LawFinds", "LawNeighbour", "LawInterpAnswers"]
BASE = 1_600_000_000_000_000
UNIT = 1000
_MGR = None


def fn_items(v):
    """a TLA+ function with domain 1..n is printed as a sequence"""
    if isinstance(v, dict):
        return sorted(((int(k), x) for k, x in v.items()))
    return [(i + 1, x) for i, x in enumerate(v)]


def build_frames(frames, rendering):
    from ..build import EgoPose, frame_gt, obj3d

    out = []
    for k, f in enumerate(frames):
        ego = EgoPose(f["ego"]["x"], f["ego"]["y"], 0.0, f["ego"]["q"] * math.pi / 2)
        objs = []
        for oid, o in fn_items(f["objs"]):
            yaw = o["a"] * 2 * math.pi / 24
            if rendering in ("map", "map-no-velocity"):
                ob = obj3d((o["x"], o["y"], 0.0), yaw=yaw, label="car", uuid="id%s" % oid, frame="base_link", time=BASE + f["time"] * UNIT)
                ob.frame_id = __import__("perception_eval.common.schema", fromlist=["FrameID"]).FrameID.MAP
                if rendering == "map-no-velocity" and ((oid + k) % 2 == 0 or oid % 3 == 0):
                    # what the loader yields for an annotation whose neighbours in the instance chain are too far apart in time
                    ob.state.velocity = None
            else:
                c, s = math.cos(-ego.yaw), math.sin(-ego.yaw)
                dx, dy = o["x"] - ego.t[0], o["y"] - ego.t[1]
                ob = obj3d((c * dx - s * dy, s * dx + c * dy, 0.0), yaw=yaw - ego.yaw, label="car", uuid="id%s" % oid, time=BASE + f["time"] * UNIT)
            objs.append(ob)
        out.append(frame_gt(objs, time=BASE + f["time"] * UNIT, name=str(k), ego=ego))
    return out


def ang_close(a, b, tol=1e-6):
    d = (a - b) % (2 * math.pi)
    return min(d, 2 * math.pi - d) < tol


def check_interp(res, spec, frames_real, rep, mism, tag, storage=None):
    from perception_eval.common.schema import FrameID

    den = spec["den"]
    if res is None or any(res is f for f in frames_real):
        mism.append(("interp-not-interpolated" + tag, "interpolating lookup returned %s, specification interpolates" % ("None" if res is None else "a neighbour"), rep))
        return
    if res.unix_time != BASE + spec["time"] * UNIT:
        mism.append(("interp-time" + tag, "interpolated frame stamped %s, query %s" % (res.unix_time, BASE + spec["time"] * UNIT), rep))
    got = {o.uuid: o for o in res.objects}
    want = {"id%s" % k: v for k, v in fn_items(spec["objs"])}
    if set(got) != set(want) or len(res.objects) != len(want):
        mism.append(("interp-object-set" + tag, "objects %s, specification %s" % (sorted(got), sorted(want)), rep))
        return
    ego2map = res.transforms[(FrameID.BASE_LINK, FrameID.MAP)]
    for u, w in want.items():
        o = got[u]
        if storage is not None and not (o.frame_id == storage):
            mism.append(("interp-frame-id" + tag, "interpolated object %s is expressed in %s, the loaded objects in %s" % (u, o.frame_id, storage), rep))
        pos, rot = (o.state.position, o.state.orientation)
        if not (o.frame_id == "map"):
            pos, rot = ego2map.transform(o.state.position, o.state.orientation)
        yaw = rot.yaw_pitch_roll[0]
        # the object's own geometric accessors speak of the pose its state carries
        fc = o.get_footprint().centroid
        cc = o.get_corners().mean(axis=0)
        if abs(fc.x - o.state.position[0]) > 1e-6 or abs(fc.y - o.state.position[1]) > 1e-6 or any(abs(a - b) > 1e-6 for a, b in zip(cc[:2], o.state.position[:2])):
            mism.append(("interp-geometry-not-at-pose" + tag, "object %s: state.position %s but its footprint is centred at (%r, %r), its corners at %s" % (u, list(o.state.position), fc.x, fc.y, list(cc)), rep))
        if abs(pos[0] - w["x"] / den) > 1e-6 or abs(pos[1] - w["y"] / den) > 1e-6:
            mism.append(("interp-position" + tag, "object %s at %s, specification (%s, %s)/%s" % (u, list(pos), w["x"], w["y"], den), rep))
        if not ang_close(yaw, (w["a"] / den) * 2 * math.pi / 24):
            mism.append(("interp-yaw" + tag, "object %s yaw %r, specification %s/%s x 15deg" % (u, yaw, w["a"], den), rep))
    # the frame's registry is self-consistent: map -> base_link is the inverse of its (interpolated) base_link -> map
    probe = (3.0, -2.0, 0.5)
    back = res.transforms.transform((FrameID.MAP, FrameID.BASE_LINK), tuple(ego2map.transform(probe)))
    if any(abs(a - b) > 1e-6 for a, b in zip(back, probe)):
        mism.append(("interp-transforms-inconsistent" + tag, "map->base_link of the interpolated frame is not the inverse of its base_link->map (%s -> %s)" % (probe, list(back)), rep))
    e = spec["ego"]
    if abs(ego2map.position[0] - e["x"] / den) > 1e-6 or abs(ego2map.position[1] - e["y"] / den) > 1e-6 or not ang_close(ego2map.rotation.yaw_pitch_roll[0], (e["q"] / den) * math.pi / 2):
        mism.append(("interp-ego-pose" + tag, "ego pose %s / yaw %r, specification %s/%s" % (list(ego2map.position), ego2map.rotation.yaw_pitch_roll[0], e, den), rep))


def replay(arg):
    from perception_eval.common.dataset import get_interpolated_now_frame, get_now_frame
    from perception_eval.common.schema import FrameID

    global _MGR
    frames, t, tol, out = arg
    mism = []
    n = 0
    for rendering in ("map", "base_link", "map-no-velocity"):
        n += 1
        real = build_frames(frames, rendering)
        rep = {"frames": frames, "t": t, "tol": tol, "rendering": rendering, "spec": out}
        tq, tolq = BASE + t * UNIT, tol * UNIT
        tag = ""
        try:
            r = get_now_frame(real, tq, tolq)
            idx = 0 if r is None else 1 + [i for i, f in enumerate(real) if f is r][0]
            if idx not in out["lookup"]:
                mism.append(("lookup", "get_now_frame returned frame %d, specification %s (0 = nothing)" % (idx, sorted(out["lookup"])), rep))
            # the loaded frames have been used before (an evaluation queries map -> base_link on them)
            for f in real:
                f.transforms.transform((FrameID.MAP, FrameID.BASE_LINK), (1.0, 2.0, 0.0))
                for o in f.objects:      # ... and has looked at the objects' geometry (matching does)
                    o.get_footprint(), o.get_corners()
            snap = [(f.unix_time, [(o.uuid, tuple(o.state.position), tuple(o.state.orientation.elements)) for o in f.objects],
                     {str(k): m.matrix.copy() for k, m in f.transforms.items()}) for f in real]
            ri = get_interpolated_now_frame(real, tq, tolq)
            sp = out["interp"]
            if sp["kind"] == "none":
                if ri is not None:
                    mism.append(("interp-should-be-none", "interpolating lookup answered although no neighbour is within tolerance", rep))
            elif sp["kind"] == "frame":
                if ri is None:
                    which = "before-first-frame" if sp["idx"] == 1 and t < frames[0]["time"] else "other"
                    mism.append(("interp-none-with-neighbour-in-tolerance:" + which, "interpolating lookup returned None, specification frame %d" % sp["idx"], rep))
                elif ri is not real[sp["idx"] - 1]:
                    mism.append(("interp-wrong-neighbour", "interpolating lookup returned another frame than %d" % sp["idx"], rep))
            else:
                check_interp(ri, sp, real, rep, mism, tag, storage=rendering.split("-")[0])
                # the same query again, and a query at the before-neighbour's own time, on the SAME loaded frames
                check_interp(get_interpolated_now_frame(real, tq, tolq), sp, real, rep, mism, ":second-lookup")
            for f, (t0_, objs0, tf0) in zip(real, snap):
                now = [(o.uuid, tuple(o.state.position), tuple(o.state.orientation.elements)) for o in f.objects]
                tfn = {str(k): m.matrix for k, m in f.transforms.items()}
                if f.unix_time != t0_ or now != objs0 or set(tfn) != set(tf0) or any(abs(tfn[k] - tf0[k]).max() > 1e-12 for k in tf0):
                    mism.append(("lookup-modified-loaded-frame", "a lookup changed a loaded ground-truth frame (objects or transforms)", rep))
                    break
            # through the manager
            if _MGR is None:
                from .pipeline import T2, manager_for

                _MGR = manager_for(dict(targets=["car", "pedestrian"], policy="DEFAULT", radius=[], cd=[2, 2], pd=[],
                                        mfilter=dict(xmax=[9, 9], ymax=[9, 9], dmax=[], dmin=[], minPts=[0, 0], conf=[], uuids=False, ignoreAttr=False)), "base_link")
            _MGR.ground_truth_frames = real
            rm = _MGR.get_ground_truth_now_frame(tq, tolq, False)
            if (rm is None) != (r is None) or (rm is not None and rm is not r):
                mism.append(("manager-lookup", "manager lookup differs from get_now_frame", rep))
            # a lookup that does not ask for interpolation is the plain nearest-frame lookup
            rmd = _MGR.get_ground_truth_now_frame(tq, tolq)
            if (rmd is None) != (r is None) or (rmd is not None and rmd is not r):
                mism.append(("manager-lookup-default", "manager lookup without the interpolation flag differs from get_now_frame", rep))
            rmi = _MGR.get_ground_truth_now_frame(tq, tolq, True)
            if (rmi is None) != (ri is None):
                mism.append(("manager-interp", "manager interpolating lookup differs from get_interpolated_now_frame", rep))
        except Exception as ex:
            mism.append(("raised" + (":objects-without-velocity" if rendering == "map-no-velocity" else ""), "raised %r" % (ex,), rep))
    return n, mism


def trace_events(seed, n):
    """random timelines in microseconds with float poses; events carry fixed-point numbers (cm, 0.1 mrad, 100 us)"""
    from perception_eval.common.dataset import get_interpolated_now_frame, get_now_frame

    from ..build import EgoPose, frame_gt, obj3d

    rng = random.Random(seed)
    evs, info = [], {}
    tid = 0
    while tid < n:
        nf = rng.randint(1, 6)
        times = sorted(rng.sample(range(0, 20000, 7), nf))   # units of 100 us
        ids_ = ["a", "b", "c"]
        frames, raw = [], []
        for k, tm in enumerate(times):
            ego = EgoPose(rng.uniform(-50, 50), rng.uniform(-50, 50), 0.0, rng.uniform(-3, 3))
            present = [i for i in ids_ if rng.random() < 0.75]
            objs, rw = [], {}
            for i in present:
                p = (rng.uniform(-80, 80), rng.uniform(-80, 80), 0.0)
                yw = rng.uniform(-math.pi, math.pi)
                if rng.random() < 0.3:
                    # headings just either side of the +-pi cut: the two neighbours' quaternions are then nearly opposite in sign
                    # (q and -q are the same rotation), the case a sign-blind "nearly parallel" shortcut gets wrong (seeded C17_r10)
                    yw = rng.choice([-1, 1]) * (math.pi - rng.uniform(1e-4, 0.03))
                ob = obj3d(p, yaw=yw, label="car", uuid=i, time=BASE + tm * 100)
                ob.frame_id = __import__("perception_eval.common.schema", fromlist=["FrameID"]).FrameID.MAP
                objs.append(ob)
                rw[i] = (p, yw)
            frames.append(frame_gt(objs, time=BASE + tm * 100, name=str(k), ego=ego))
            raw.append(rw)
        tq = rng.choice([times[0] - rng.randint(1, 400), times[-1] + rng.randint(1, 400), rng.choice(times), rng.randint(times[0], times[-1] + 1)])
        tolq = rng.choice([0, 50, 750, 5000])
        r = get_now_frame(frames, BASE + tq * 100, tolq * 100)
        ri = get_interpolated_now_frame(frames, BASE + tq * 100, tolq * 100)
        idx = 0 if r is None else 1 + [i for i, f in enumerate(frames) if f is r][0]
        iidx = -1 if ri is None else next((1 + i for i, f in enumerate(frames) if f is ri), 0)
        ev = dict(tid=tid + 1, times=times, t=tq, tol=tolq, lookup=idx, interp=iidx, stamped=-1, objs=[])
        skip = False
        if iidx == 0:
            ev["stamped"] = (ri.unix_time - BASE) // 100 if (ri.unix_time - BASE) % 100 == 0 else -2
            bs = [i for i, tm in enumerate(times) if tm <= tq]
            b = max(bs) if bs else 0
            a = b + 1
            # a synthesised frame although the query has no loaded frame on one side: nothing to interpolate between (the specification rejects
            # the event on `interp`; the objects are not described)
            for o in (ri.objects if bs and a < len(times) else []):
                in1, in2 = o.uuid in raw[b], o.uuid in raw[a]
                rec = dict(id=o.uuid, x=int(round(o.state.position[0] * 100)), y=int(round(o.state.position[1] * 100)), yaw=int(round(o.state.orientation.yaw_pitch_roll[0] * 1e4)) % 62832,
                           in1=1 if in1 else 0, in2=1 if in2 else 0)
                for tag, present, fr in (("1", in1, raw[b]), ("2", in2, raw[a])):
                    if present:
                        p, yw = fr[o.uuid]
                        rec.update({"x" + tag: int(round(p[0] * 100)), "y" + tag: int(round(p[1] * 100)), "yaw" + tag: int(round(yw * 1e4)) % 62832})
                    else:
                        rec.update({"x" + tag: 0, "y" + tag: 0, "yaw" + tag: 0})
                if in1 and in2:
                    d = abs(((raw[a][o.uuid][1] - raw[b][o.uuid][1] + math.pi) % (2 * math.pi)) - math.pi)
                    if d > math.pi - 0.05:
                        skip = True   # (nearly) antipodal: the shortest arc is not defined
                ev["objs"].append(rec)
            ev["nobj_union"] = len(set(raw[b]) | set(raw[a])) if bs and a < len(times) else 0
        else:
            ev["nobj_union"] = 0
        if skip:
            continue
        tid += 1
        evs.append(ev)
        info[tid] = dict(times=times, t=tq, tol=tolq, lookup=idx, interp=iidx)
    return evs, info


def static_object_events(seed, n):
    """a static object (fixed map pose) seen from an ego that moves, turns and TILTS between two loaded frames, stored in base_link: at every query
    time between them the interpolated frame's own ego->map matrix must carry the returned base_link pose back onto the fixed map pose (plain
    matrix algebra on the harness side, nothing of the library's pose arithmetic)"""
    import numpy as np
    from pyquaternion import Quaternion

    from perception_eval.common.dataset import get_interpolated_now_frame
    from perception_eval.common.schema import FrameID
    from perception_eval.common.transform import HomogeneousMatrix

    from ..build import frame_gt, obj3d

    rng = random.Random(seed * 977 + 5)
    evs, info = [], {}
    for k in range(n):
        P = np.array([rng.uniform(-60, 60), rng.uniform(-60, 60), rng.uniform(-1, 1)])
        Q = Quaternion(axis=[0, 0, 1], radians=rng.uniform(-math.pi, math.pi))
        frames = []
        for j, tm in enumerate((0, 1000)):
            eq = Quaternion(axis=[0, 0, 1], radians=rng.uniform(-math.pi, math.pi)) * Quaternion(axis=[0, 1, 0], radians=rng.uniform(-0.2, 0.2)) * Quaternion(axis=[1, 0, 0], radians=rng.uniform(-0.15, 0.15))
            et = np.array([rng.uniform(-80, 80), rng.uniform(-80, 80), rng.uniform(-2, 2)])
            R = eq.rotation_matrix
            p_b = R.T @ (P - et)
            q_b = eq.inverse * Q
            ob = obj3d(tuple(p_b), yaw=0.0, label="car", uuid="static", time=BASE + tm * 100)
            ob.state.orientation = q_b
            M = HomogeneousMatrix(tuple(et), eq, src=FrameID.BASE_LINK, dst=FrameID.MAP)
            frames.append(__import__("perception_eval.common.dataset", fromlist=["FrameGroundTruth"]).FrameGroundTruth(
                unix_time=BASE + tm * 100, frame_name=str(j), objects=[ob], transforms=[M]))
        tq = rng.choice([250, 500, 333, 900, 1])
        try:
            ri = get_interpolated_now_frame(frames, BASE + tq * 100, 2_000_000)
            o = ri.objects[0]
            Mi = ri.transforms[(FrameID.BASE_LINK, FrameID.MAP)].matrix
            back_p = Mi[:3, :3] @ np.array(o.state.position) + Mi[:3, 3]
            back_R = Mi[:3, :3] @ o.state.orientation.rotation_matrix
            rp, rr = float(np.abs(back_p - P).max()), float(np.abs(back_R - Q.rotation_matrix).max())
            base = dict(frame_is_base_link=1 if o.frame_id == FrameID.BASE_LINK else 0)
        except Exception as ex:
            rp, rr, base = -1.0, -1.0, dict(raised=repr(ex))
        f9 = lambda v: -1 if v < 0 else int(min(2 * 10**9, round(v * 1e9)))
        for law, v in (("static-object-position-drifts", rp), ("static-object-orientation-drifts", rr)):
            evs.append(dict(tid=len(evs) + 1, law=law, res9=f9(v), tol9=1000))
            info[len(evs)] = dict(case=k, query=tq, residual=v, **base)
    return evs, info


def run(ctx: Ctx):
    consts = dict(Times="{0,2,4,6}", QueryTimes="-2..8", Tols="{0,1,3}", MaxFrames="3", Ids="{1,2}",
                  ObjPoses="{[x |-> 1, y |-> 2, a |-> 0],[x |-> 5, y |-> -2, a |-> 5],[x |-> -3, y |-> 0, a |-> 20]}",
                  EgoPoses="{[x |-> 0, y |-> 0, q |-> 0],[x |-> 10, y |-> 4, q |-> 1]}", Sample="120" if ctx.quick else "1500")
    res = T.run_model("MC_Timeline", "MCTL_" + ctx.pid, consts, invariants=INV, model_values=(), tlc_kwargs=dict(dump=True, allow_violation=False, seed=ctx.seed, timeout=3000))
    ctx.add_tlc(res, "MC_Timeline %s" % {k: consts[k] for k in ("Times", "QueryTimes", "Tols", "MaxFrames", "Sample")}, must_take=["Next"])
    states, _ = load_dump(res.dump_path, must_contain='phase = "done"')
    os.remove(res.dump_path)
    items = [(plain(st["frames"]), st["t"], st["tol"], plain(st["out"])) for st in states]
    outs = pmap(replay, items)
    for it, (n, mism) in zip(items, outs):
        ctx.traces += n
        ctx.evaluations += n
        if it[3]["interp"]["kind"] != "none":
            ctx.nontrivial_count += 1
        for clause, msg, rep in mism:
            ctx.violation(clause, msg, rep)
    it = next(i for i in items if i[3]["interp"]["kind"] == "interp")
    ctx.sample({"frames": it[0], "t": it[1], "tol": it[2], "spec": it[3]})
    evs, info = trace_events(ctx.seed, 600 if ctx.quick else 6000)
    rej = trace.validate(ctx, "Trace_Timeline", evs)
    ctx.traces += len(evs)
    ctx.evaluations += len(evs)
    ctx.nontrivial_count += sum(1 for e in evs if e["interp"] == 0)
    for t_, line, clause in rej:
        sig = "trace:" + clause
        ctx.violation(sig, "%s -> %s" % (info[t_], clause), info[t_])
    sev, sinfo = static_object_events(ctx.seed, 200 if ctx.quick else 2000)
    for t_, line, clause in trace.validate(ctx, "Trace_Residual", sev, tag="Trace_Residual_" + ctx.pid):
        ctx.violation("trace:" + clause, "%s -> %s" % (sinfo[t_], clause), sinfo[t_])
    ctx.traces += len(sev) // 2
    ctx.evaluations += len(sev)
    ctx.nontrivial_count += len(sev) // 2
    ctx.exhaustive = False
    ctx.rule = (
        "TLC evaluates Lookup / InterpLookup of Timeline.tla for sampled time-ordered frame lists (1-3 frames at times within {0,2,4,6}, objects "
        "{1,2} appearing / disappearing, lattice poses, yaw grid Z/24, two ego poses) x every query time -2..8 x tolerance {0,1,3}, checking "
        "nearest-within-tolerance, reproduction at a neighbour's own timestamp and that the interpolating lookup answers whenever the plain one "
        "does; every state is replayed through get_now_frame, get_interpolated_now_frame and manager.get_ground_truth_now_frame with frames stored "
        "in map and in base_link, comparing frame identity, stamped time, object poses and ego pose with the exact rationals. Random microsecond "
        "timelines with float poses are validated as traces in fixed point. Non-trivial = lookup with an answer / interpolated trace."
    )
    ctx.assumptions += ["interpolated poses are compared in global coordinates", "antipodal yaw pairs are excluded (shortest arc undefined)"]
