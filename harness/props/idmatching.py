"""C11 — IdMatching.tla bound to get_object_results for ROI-less 2-D objects and the classification scores (engines M, R, T)."""
from __future__ import annotations

import json
import os
import random

from .. import tlc as T
from .. import trace
from ..core import Ctx, pmap
from ..tlaval import load_dump
from .pipeline import plain

INV = ["LawStructure", "LawMaximal", "LawScores", "LawSomeOutcome"]
GENERIC = {"green": "car", "red": "pedestrian", "unknown": "unknown"}


def tl_names(rot):
    """the specification's two ordinary traffic-light labels stand for ANY two different ones: pair number `rot` of the declared label names
    (neighbours in the declaration: red_left / red_left_straight, the two diagonals, ...)"""
    from perception_eval.common.label import TrafficLightLabel

    names = [n.lower() for n in TrafficLightLabel.__members__ if n.lower() not in ("unknown", "fp", "false_positive", "traffic_light")]     # (traffic_light is the detection class, no classification label)
    a, b = names[rot % len(names)], names[(rot + 1) % len(names)]
    return {"green": a, "red": b, "unknown": "unknown"}


def rot_of(ests, gts):
    import zlib

    return zlib.crc32(json.dumps([ests, gts], sort_keys=True, default=str).encode()) % 97


def build(objs, family, score, rot=None):
    from perception_eval.common.object2d import DynamicObject2D
    from perception_eval.common.schema import FrameID

    from ..build import aw_label, tl_label

    out = []
    ren = tl_names(rot) if (family == "tlr" and rot is not None) else {}
    for i, o in enumerate(objs):
        lab = tl_label(ren.get(o["label"], o["label"])) if family == "tlr" else aw_label(GENERIC[o["label"]])
        ob = DynamicObject2D(unix_time=1000, frame_id=FrameID.from_value(o["cam"]), semantic_score=score, semantic_label=lab, roi=None, uuid=o["uuid"])
        ob._verif_id = i + 1
        out.append(ob)
    return out


def ratio_eq(impl, spec):
    if tuple(spec) == (0, 0):
        # undefined: the library's convention is inf; _summarize yields nan for F1 when precision is undefined -- the statement only
        # speaks of defined values, so any non-finite value is accepted
        return impl != impl or impl in (float("inf"), float("-inf"))
    return impl != float("inf") and abs(impl - spec[0] / spec[1]) < 1e-12


def replay(arg):
    from perception_eval.common.evaluation_task import EvaluationTask
    from perception_eval.evaluation.matching.objects_filter import divide_objects, divide_objects_to_num
    from perception_eval.evaluation.metrics.classification.accuracy import ClassificationAccuracy
    from perception_eval.evaluation.metrics.classification.classification_metrics_score import ClassificationMetricsScore
    from perception_eval.evaluation.result.object_result import get_object_results

    from ..build import AW, TL, vid

    family, ests, gts, uuid_first, out = arg
    rot = rot_of(ests, gts)
    re_, rg = build(ests, family, 0.9, rot), build(gts, family, 1.0, rot)
    re0, rg0 = list(re_), list(rg)
    rep = {"family": family, "ests": ests, "gts": gts, "uuid_first": uuid_first, "spec_outcomes": [sorted(map(list, o)) for o in out["outcomes"]]}
    mism = []
    if not re_ or not rg:
        return 1, []   # the id matcher is only reached with both lists non-empty (early returns are C01's)
    try:
        res = get_object_results(EvaluationTask.CLASSIFICATION2D, re_, rg, uuid_matching_first=uuid_first)
    except Exception as ex:
        return 1, [("raised", "get_object_results raised %r" % (ex,), rep)]
    got = frozenset((vid(r.estimated_object), vid(r.ground_truth_object) if r.ground_truth_object is not None else 0) for r in res)
    rep["impl"] = sorted(map(list, got))
    if len(got) != len(res):
        mism.append(("duplicate-result", "a result is reported twice", rep))
    outcomes = {frozenset(tuple(p) for p in o) for o in out["outcomes"]}
    if got not in outcomes:
        cross = any(e and g and ests[e - 1]["cam"] != gts[g - 1]["cam"] for e, g in got)
        mism.append(("pairing" + (":cross-camera" if cross else ""), "pairs %s not among the specification's outcomes" % sorted(got), rep))
        return 1, mism
    if re_ != re0 or rg != rg0:
        mism.append(("input-mutated", "input lists changed", rep))
    sc = None
    for o, s in zip(out["outcomes"], out["scores_list"]):
        if frozenset(tuple(p) for p in o) == got:
            sc = s
    acc = ClassificationAccuracy(res, len(gts), [])
    for k, v in (("accuracy", acc.accuracy), ("precision", acc.precision), ("recall", acc.recall), ("f1", acc.f1score)):
        if not ratio_eq(v, sc[k]):
            mism.append(("score-" + k, "%s = %r, specification %s" % (k, v, sc[k]), rep))
    # nested per-frame input (two frames), scored twice: same answer, input untouched
    h = len(res) // 2
    frames = [list(res[:h]), list(res[h:])]
    lens = [len(f) for f in frames]
    a1 = ClassificationAccuracy(frames, len(gts), [])
    a2 = ClassificationAccuracy(frames, len(gts), [])
    if [len(f) for f in frames] != lens:
        mism.append(("nested-input-mutated", "ClassificationAccuracy changed the per-frame lists it was given (%s -> %s)" % (lens, [len(f) for f in frames]), rep))
    for k, v1, v2 in (("accuracy", a1.accuracy, a2.accuracy), ("precision", a1.precision, a2.precision), ("recall", a1.recall, a2.recall), ("f1", a1.f1score, a2.f1score)):
        if not ratio_eq(v1, sc[k]) or not ratio_eq(v2, sc[k]):
            mism.append(("score-nested-" + k, "nested input: %s = %r then %r, specification %s" % (k, v1, v2, sc[k]), rep))
    table = TL if family == "tlr" else AW
    targets = sorted({o.semantic_label.label for o in re_ + rg}, key=lambda l: l.value)
    ms = ClassificationMetricsScore({k: [v] for k, v in divide_objects(res, targets).items()}, divide_objects_to_num(rg, targets), targets)
    a, p, r, f = ms._summarize()
    for k, v in (("accuracy", a), ("precision", p), ("recall", r), ("f1", f)):
        if not ratio_eq(v, sc[k]):
            mism.append(("summary-" + k, "_summarize %s = %r, specification %s" % (k, v, sc[k]), rep))
    # `unknown` not among the target labels: an unknown-labelled estimate paired with a ground truth is scored in that ground truth's bucket, so
    # the totals are the same counting definitions (inputs where every unknown estimate is paired and no ground truth is unknown)
    unk = table["unknown"]
    pairs_ = [(r.estimated_object, r.ground_truth_object) for r in res]
    if all(g_.semantic_label.label != unk for g_ in rg) and all(g_ is not None for e_, g_ in pairs_ if e_.semantic_label.label == unk) and any(
            e_.semantic_label.label == unk for e_, _ in pairs_):
        t2 = [t for t in targets if t != unk]
        try:
            ms2 = ClassificationMetricsScore({k: [v] for k, v in divide_objects(res, t2).items()}, divide_objects_to_num(rg, t2), t2)
            a, p, r, f = ms2._summarize()
            for k, v in (("accuracy", a), ("precision", p), ("recall", r), ("f1", f)):
                if not ratio_eq(v, sc[k]):
                    mism.append(("summary-unknown-not-target-" + k, "targets without `unknown`: %s = %r, specification %s" % (k, v, sc[k]), rep))
        except Exception as ex:
            mism.append(("raised", "scores with `unknown` not a target raised %r" % (ex,), rep))
    return 1, mism


_MGR = {}


def replay_manager(arg):
    """the same inputs through PerceptionEvaluationManager in the classification2d task: frame-level pairs and scores, and a two-frame scene
    (the same frame added twice: pooled counts double, ratios stay)"""
    import shutil
    import tempfile

    from perception_eval.common.dataset import FrameGroundTruth
    from perception_eval.config import PerceptionEvaluationConfig
    from perception_eval.evaluation.result.perception_frame_config import CriticalObjectFilterConfig, PerceptionPassFailConfig
    from perception_eval.manager import PerceptionEvaluationManager

    from ..build import vid

    family, ests, gts, uuid_first, out = arg
    if not ests or not gts:
        return 0, []
    rot = rot_of(ests, gts) if family == "tlr" else None
    rep = {"family": family, "ests": ests, "gts": gts, "uuid_first": uuid_first, "through": "PerceptionEvaluationManager(classification2d)"}
    key = (family, uuid_first, rot)
    labels = [tl_names(rot)[x] for x in ("green", "red", "unknown")] if family == "tlr" else ["car", "pedestrian", "unknown"]
    rep["labels"] = labels
    try:
        if key not in _MGR:
            tmp = tempfile.mkdtemp(prefix="verif_cls_")
            try:
                ec = PerceptionEvaluationConfig([], ["cam_front", "cam_back", "cam_traffic_light"], tmp,
                                                {"evaluation_task": "classification2d", "target_labels": labels, "label_prefix": "traffic_light" if family == "tlr" else "autoware",
                                                 "merge_similar_labels": False, "uuid_matching_first": uuid_first})
                _MGR[key] = PerceptionEvaluationManager(ec)
            finally:
                shutil.rmtree(tmp, ignore_errors=True)
        mgr = _MGR[key]
        mgr.frame_results.clear()
        ec = mgr.evaluator_config
        crit = CriticalObjectFilterConfig(ec, labels)
        pfc = PerceptionPassFailConfig(ec, labels)
        mism = []
        outcomes = {frozenset(tuple(p) for p in o) for o in out["outcomes"]}
        for k in range(2):
            re_, rg = build(ests, family, 0.9, rot), build(gts, family, 1.0, rot)
            fr = mgr.add_frame_result(1000 * (k + 1), FrameGroundTruth(unix_time=1000 * (k + 1), frame_name=str(k), objects=rg), re_, crit, pfc)
            got = frozenset((vid(r.estimated_object), vid(r.ground_truth_object) if r.ground_truth_object is not None else 0) for r in fr.object_results)
            if got not in outcomes:
                mism.append(("manager-pairing", "frame %d: pairs %s not among the specification's outcomes" % (k, sorted(got)), rep))
                return 1, mism
            sc = [s_ for o, s_ in zip(out["outcomes"], out["scores_list"]) if frozenset(tuple(p) for p in o) == got][0]
            a, p_, r, f = fr.metrics_score.classification_scores[0]._summarize()
            for name, v in (("accuracy", a), ("precision", p_), ("recall", r), ("f1", f)):
                if not ratio_eq(v, sc[name]):
                    mism.append(("manager-frame-" + name, "frame %d: %s = %r, specification %s" % (k, name, v, sc[name]), rep))
            if fr.metrics_score.num_ground_truth != len(gts):
                mism.append(("manager-frame-gt-count", "frame %d: num_ground_truth %r for %d ground truths" % (k, fr.metrics_score.num_ground_truth, len(gts)), rep))
            pf = fr.pass_fail_result
            if len(pf.tp_object_results) + len(pf.fp_object_results) != len(fr.object_results):
                mism.append(("manager-results-not-tp-plus-fp", "frame %d: %d results, %d TP + %d FP" % (k, len(fr.object_results), len(pf.tp_object_results), len(pf.fp_object_results)), rep))
        if len({frozenset((vid(r.estimated_object), vid(r.ground_truth_object) if r.ground_truth_object is not None else 0) for r in f_.object_results) for f_ in mgr.frame_results}) == 1:
            scene = mgr.get_scene_result()
            if scene.num_ground_truth != 2 * len(gts):
                mism.append(("manager-scene-gt-count", "two frames: scene num_ground_truth %r, specification %d" % (scene.num_ground_truth, 2 * len(gts)), rep))
            a, p_, r, f = scene.classification_scores[0]._summarize()
            for name, v in (("accuracy", a), ("precision", p_), ("recall", r), ("f1", f)):
                if not ratio_eq(v, sc[name]):
                    mism.append(("manager-scene-" + name, "two identical frames: scene %s = %r, specification %s" % (name, v, sc[name]), rep))
        return 1, mism
    except Exception as ex:
        return 1, [("raised", "manager (classification2d) raised %r" % (ex,), rep)]


def run(ctx: Ctx):
    consts = dict(Uuids='{"u1","u2","u3"}', Labels='{"green","red","unknown"}', Cams='{"cam_front","cam_back","cam_traffic_light"}',
                  MaxN="3", Sample="90" if ctx.quick else "450")
    res = T.run_model("MC_IdMatching", "MCID_" + ctx.pid, consts, invariants=INV, model_values=(), tlc_kwargs=dict(dump=True, allow_violation=False, seed=ctx.seed, timeout=3000))
    ctx.add_tlc(res, "MC_IdMatching %s" % consts, must_take=["Next"])
    states, _ = load_dump(res.dump_path, must_contain='phase = "done"')
    os.remove(res.dump_path)
    items = []
    for st in states:
        o = st["out"]
        outs_ = [sorted(tuple(p) for p in oc) for oc in o["outcomes"]]
        scores = {frozenset(tuple(p) for p in k): plain(v) for k, v in o["scores"].items()}
        items.append((st["family"], plain(st["ests"]), plain(st["gts"]), st["uuidFirst"],
                      {"outcomes": outs_, "scores_list": [scores[frozenset(oc)] for oc in outs_]}))
    outs = pmap(replay, items)
    for it, (n, mism) in zip(items, outs):
        ctx.traces += n
        ctx.evaluations += n
        if any(p[1] != 0 for oc in it[4]["outcomes"] for p in oc):
            ctx.nontrivial_count += 1
        for clause, msg, rep in mism:
            ctx.violation(clause, msg, rep)
    sub = items[:: 3 if ctx.quick else 1]
    outs = pmap(replay_manager, sub)
    for it, (n, mism) in zip(sub, outs):
        ctx.traces += n
        ctx.evaluations += n
        for clause, msg, rep in mism:
            ctx.violation(clause, msg, rep)
    ctx.extra["inputs_through_the_manager_classification2d"] = sum(n for n, _ in outs)
    it = next(i for i in items if len(i[4]["outcomes"]) > 1)
    ctx.sample({"family": it[0], "ests": it[1], "gts": it[2], "uuid_first": it[3], "spec": it[4]})
    ctx.exhaustive = False
    ctx.rule = (
        "TLC computes, for sampled pairs of lists of up to 3 ROI-less estimates / ground truths (uuids {u1,u2,u3} unique per side and camera, labels "
        "{green, red, unknown}, cameras {cam_front, cam_back, cam_traffic_light}), the generic pairing (same uuid and camera; leftovers as FP unless "
        "one belongs to the traffic-light camera) and the set of admissible traffic-light pairings (label stage, optionally uuid-constrained, then "
        "uuid stage) with their exact scores, and checks same-camera, each-object-once, label-stage maximality, scores in [0,1] and the perfect "
        "case; each state is replayed through get_object_results(CLASSIFICATION2D, ...), ClassificationAccuracy and "
        "ClassificationMetricsScore._summarize. Non-trivial = input with at least one admissible pair."
    )
    ctx.assumptions += ["uuids non-null and unique per side and camera", "both lists non-empty (the empty-list early returns belong to C01)"]
