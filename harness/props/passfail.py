"""C03 — per-frame TP/FP/FN/TN accounting (Manager.tla / PassFail.tla / Filter.tla; engines M, R, T)."""
from __future__ import annotations

from ..core import Ctx
from . import pipeline

ACCOUNTING = {"rs2", "g2", "tp", "fp", "fn", "tn", "num_success_fail", "deprecated_get_fail_object_num", "raised", "caller-list", "deprecated_divide_tp_fp", "deprecated_get_fn"}


def run(ctx: Ctx):
    def want(rendering, kind, fields):
        return kind in ("final", "raised", "caller") and bool(set(fields) & ACCOUNTING)

    for _ in pipeline.run_pipeline(ctx, want):
        pass
    # engine T: executions on large random centimetre-lattice scenes (both storage frames) validated step by step against Manager.tla
    from . import pipeline_trace

    ctx.extra["manager_executions_validated_as_traces"] = pipeline_trace.run(ctx, n=150 if ctx.quick else 3000)
    ctx.rule = (
        "TLC runs the add_frame_result step machine (manager filter -> two-stage matching -> uuid filter -> critical filter -> pass/fail -> AP) on "
        "every configuration x lattice scene of the families (x/y boxes, distance rings, confidence/point/uuid/attribute thresholds, unknown as "
        "target, 3x3 contested scenes) and checks results = TP+FP, ground-truth conservation, TP justification and nothing-outside-critical in every "
        "state; every terminated state is replayed through a real PerceptionEvaluationManager with objects stored in base_link and in map under two "
        "ego poses, comparing object_results, frame_ground_truth.objects, the four pass/fail lists, get_num_success/fail and the AP rows. Random float "
        "scenes with arbitrary ego pose are validated as traces. Non-trivial = scene whose outcome has results and at least one FP/FN/TN, or ties."
    )
    ctx.exhaustive = False
    ctx.assumptions += [
        "lattice scenes: equally sized aligned boxes, bounds in odd half units (no decision on a boundary)",
        "frame configurations use the manager's target list (Map looks buckets up by the manager's labels)",
    ]
