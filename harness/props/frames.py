"""C07 — results do not depend on the coordinate frame the objects are stored in (Manager.tla is frame-free; engines R, T)."""
from __future__ import annotations

from ..core import Ctx
from . import pipeline


def lookup_and_evaluate(arg):
    """a moving ego, ground truth looked up by time (exact and interpolated) from the manager's loaded frames and evaluated, once with
    everything stored in base_link and once in map; static objects, estimates 0.3 m off their ground truth"""
    import math
    import random

    from perception_eval.evaluation.result.perception_frame_config import CriticalObjectFilterConfig, PerceptionPassFailConfig

    from ..build import EgoPose, frame_gt, obj3d
    from .tracking_manager import TARGETS, _cfg

    seed, k = arg
    rng = random.Random(seed * 7877 + k)
    theta = rng.uniform(-3, 3)
    e0 = (rng.uniform(-200, 200), rng.uniform(-200, 200))
    vel = (rng.uniform(-8, 8), rng.uniform(-8, 8))       # m per 100 ms step
    nobj = rng.randint(1, 4)
    objs = [dict(id=j, x=e0[0] + rng.uniform(-30, 30), y=e0[1] + rng.uniform(-30, 30), yaw=rng.uniform(-3, 3), label=rng.choice(TARGETS)) for j in range(1, nobj + 1)]
    first_seen = {o["id"]: 0 for o in objs}
    if k % 3 == 0:      # nothing annotated at the first ground-truth frame
        first_seen = {o["id"]: 1 for o in objs}
    elif k % 3 == 1:    # one object appears later
        first_seen[objs[0]["id"]] = rng.choice([1, 2])
    times = [1_000_000 + i * 100_000 for i in range(3)]
    queries = [times[0], times[0] + 40_000, times[1], times[1] + 50_000, times[2] - 30_000, times[2]]
    out = {}
    for rendering in ("base_link", "map"):
        mgr = pipeline.manager_for(_cfg(), "map" if rendering == "map" else "base_link", task="detection")
        # a critical region whose border runs through the scene, so that range decisions are sensitive to the ego pose
        crit = CriticalObjectFilterConfig(mgr.evaluator_config, TARGETS, max_x_position_list=[18.0, 18.0], max_y_position_list=[22.0, 22.0])
        pfc = PerceptionPassFailConfig(mgr.evaluator_config, TARGETS, [2.0, 2.0])

        def ego_at(t):
            f = (t - times[0]) / 100_000.0
            return EgoPose(e0[0] + vel[0] * f, e0[1] + vel[1] * f, 0.0, theta)

        def render(o, ego, dx, uuid, score, t):
            # object given in MAP coordinates -> stored in `rendering`
            if rendering == "map":
                ob = obj3d((o["x"] + dx, o["y"], 0.0), yaw=o["yaw"], label=o["label"], uuid=uuid, score=score, time=t)
                from perception_eval.common.schema import FrameID

                ob.frame_id = FrameID.MAP
                return ob
            c, s_ = math.cos(-ego.yaw), math.sin(-ego.yaw)
            rx, ry = o["x"] + dx - ego.t[0], o["y"] - ego.t[1]
            return obj3d((c * rx - s_ * ry, s_ * rx + c * ry, 0.0), yaw=o["yaw"] - ego.yaw, label=o["label"], uuid=uuid, score=score, time=t)

        frames = []
        for i, t in enumerate(times):
            ego = ego_at(t)
            frames.append(frame_gt([render(o, ego, 0.0, "g%d" % o["id"], 1.0, t) for o in objs if first_seen[o["id"]] <= i], time=t, name=str(i), ego=ego))
        mgr.ground_truth_frames = frames
        res = []
        for t in queries:
            fgt = mgr.get_ground_truth_now_frame(t, 75_000, True)
            if fgt is None:
                res.append(None)
                continue
            ego = ego_at(t)
            ests = [render(o, ego, 0.3, "e%d" % o["id"], 0.9 - 0.01 * o["id"], t) for o in objs]
            try:
                fr = mgr.add_frame_result(t, fgt, ests, crit, pfc)
                pf = fr.pass_fail_result
                res.append((len(pf.tp_object_results), len(pf.fp_object_results), len(pf.fn_objects), round(fr.metrics_score.maps[0].map, 6)))
            except Exception as ex:
                res.append("raised %s" % type(ex).__name__)
        out[rendering] = res
    return dict(queries=queries, times=times, nobj=nobj, results=out)


def score_pair(arg):
    """per-object scores of one random (estimate, ground truth) pair - different extents, headings, offsets, also behind the ego - computed with the
    pair stored in base_link and stored in map under a random ego pose (transforms supplied).  The map storage is a common rigid motion of the
    pair that keeps it where it is relative to the ego, so the event is a Trace_Scores event with `moved` = map storage and rot_only = 1
    (plane distance must not change either)."""
    import math
    import random as _r

    from perception_eval.evaluation.matching import MatchingMode
    from perception_eval.evaluation.result.object_result import DynamicObjectWithPerceptionResult

    from ..build import EgoPose, obj3d

    seed, k = arg
    rng = _r.Random(seed * 65537 + k)
    while True:
        ego = EgoPose(rng.uniform(-800, 800), rng.uniform(-800, 800), 0.0, rng.uniform(-math.pi, math.pi))
        gp = (rng.uniform(-40, 40), rng.uniform(-40, 40), rng.uniform(-1, 1))
        gyaw = rng.uniform(-math.pi, math.pi)
        gsize = (rng.uniform(0.6, 2.5), rng.uniform(0.6, 12.0), rng.uniform(1.0, 3.0))
        off = rng.choice([0.1, 0.4, 1.0, 2.5])
        ang = rng.uniform(-math.pi, math.pi)
        ep = (gp[0] + off * math.cos(ang), gp[1] + off * math.sin(ang), gp[2] + rng.uniform(-0.3, 0.3))
        eyaw = gyaw + rng.choice([0.0, 0.05, 0.3, 1.2, math.pi / 2, math.pi])
        esize = tuple(v * rng.choice([1.0, 0.6, 0.9, 1.3]) for v in gsize)
        out = {}
        for fr in ("base_link", "map"):
            e = obj3d(ep, yaw=eyaw, size=esize, label="car", frame=fr, ego=ego)
            g = obj3d(gp, yaw=gyaw, size=gsize, label="car", frame=fr, ego=ego)
            r = DynamicObjectWithPerceptionResult(e, g, transforms=ego.transforms())
            r2 = DynamicObjectWithPerceptionResult(g, e, transforms=ego.transforms())
            from perception_eval.evaluation.metrics.detection.tp_metrics import TPMetricsAph

            out[fr] = dict(center=r.center_distance.value, plane=r.plane_distance.value, iou2d=r.iou_2d.value, iou3d=r.iou_3d.value, yaw_error=r.heading_error[2],
                           aph_weight=TPMetricsAph().get_value(r),
                           correct_plane_1m=r.is_result_correct(MatchingMode.PLANEDISTANCE, 1.0), center_s=r2.center_distance.value, iou2d_s=r2.iou_2d.value,
                           iou3d_s=r2.iou_3d.value)
            if fr == "base_link":
                corners = lambda o: sorted(math.hypot(p[0], p[1]) for p in list(o.get_footprint().exterior.coords)[:4])
                ge, gg = corners(e), corners(g)
        # plane distance ranks the corners of both boxes by their distance from the ego: near-ties of the ranking are excluded (the statement's margin)
        if min(gg[2] - gg[1], ge[2] - ge[1]) < 1e-3 or 0 < out["base_link"]["iou2d"] < 1e-6:
            continue
        break
    a, m = out["base_link"], out["map"]
    f6 = lambda v: int(round(v * 1e6))
    f4 = lambda v: int(round(v * 1e4))
    ev = dict(iou2=f6(a["iou2d"]), iou3=f6(a["iou3d"]), iou2_swapped=f6(a["iou2d_s"]), iou3_swapped=f6(a["iou3d_s"]), iou2_moved=f6(m["iou2d"]), iou3_moved=f6(m["iou3d"]),
              cd4=f4(a["center"]), cd4_swapped=f4(a["center_s"]), cd4_moved=f4(m["center"]), pd4=f4(a["plane"]), pd4_moved=f4(m["plane"]), rot_only=1, identical=0, far=0,
              dx=int(round((ep[0] - gp[0]) * 100)), dy=int(round((ep[1] - gp[1]) * 100)), dz=int(round((ep[2] - gp[2]) * 100)))
    # heading: a = ground-truth yaw, b = estimate yaw (ego frame); weight as computed with the pair stored in map / in base_link
    hev = dict(a=int(round(gyaw * 1e4)) % 62832, b=int(round(eyaw * 1e4)) % 62832, w4=int(round(m["aph_weight"] * 1e4)), w4r=int(round(a["aph_weight"] * 1e4)),
               e=int(round(m["yaw_error"] * 1e4)), tolw=0, tole=0)
    return ev, dict(ego=[ego.t[0], ego.t[1], ego.yaw], gt=[gp, gyaw, gsize], est=[ep, eyaw, esize], scores=out, heading_event=hev)


def run(ctx: Ctx):
    from .. import trace as _trace
    from ..core import pmap as _pmap

    outs = _pmap(score_pair, [(ctx.seed, k) for k in range(400 if ctx.quick else 6000)], chunks=4)
    evs, info = [], {}
    for tid, (ev, sc) in enumerate(outs, 1):
        evs.append(dict(ev, tid=tid))
        info[tid] = sc
        ctx.traces += 1
        ctx.evaluations += 2
        ctx.nontrivial_count += 1
        a, b = sc["scores"]["base_link"], sc["scores"]["map"]
        dy_ = abs(a["yaw_error"] - b["yaw_error"])
        if min(dy_, abs(dy_ - 2 * 3.141592653589793)) > 1e-6:
            ctx.violation("per-object-scores:ego-vs-map:yaw-error", "yaw error of one pair differs between base_link and map storage: %s vs %s" % (a, b), sc)
        if a["correct_plane_1m"] != b["correct_plane_1m"] and abs(a["plane"] - 1.0) > 1e-3:
            ctx.violation("per-object-scores:ego-vs-map:decision", "TP decision of one pair differs between base_link and map storage: %s vs %s" % (a, b), sc)
    hevs = [dict(info[t_]["heading_event"], tid=t_) for t_ in sorted(info)]
    for t_, line, clause in _trace.validate(ctx, "Trace_Heading", hevs, tag="Trace_Heading_" + ctx.pid):
        ctx.violation("per-object-scores:ego-vs-map:heading:" + clause, "APH weight / yaw error of one pair (w4 = stored in map, w4r = stored in base_link) rejected by Trace_Heading: %s" % clause, info[t_])
    for t_, line, clause in _trace.validate(ctx, "Trace_Scores", evs, tag="Trace_Scores_" + ctx.pid):
        ctx.violation("per-object-scores:ego-vs-map:" + clause, "scores of one pair stored in base_link / in map rejected by Trace_Scores: %s" % clause, info[t_])

    def want(rendering, kind, fields):
        return rendering.startswith("map")

    nsingle = 0
    for c, f, specs, impls in pipeline.run_pipeline(ctx, want):
        # direct equality of the ego and the map executions where the specification admits a single outcome
        if len(specs) == 1 and impls[0] is not None:
            nsingle += 1
            for k, im in enumerate(impls[1:], 1):
                if im is None:
                    continue
                diff = [fld for fld in ("rs2", "g2", "tp", "fp", "fn", "tn", "nsucc", "nfail") if im[fld] != impls[0][fld]]
                for ra, rb in zip(im["aps"], impls[0]["aps"]):
                    for a, b in zip(ra, rb):
                        if (a == "inf") != (b == "inf") or (a != "inf" and abs(a - b) > 1e-9):
                            diff.append("ap")
                for ra, rb in zip(im["aphs"], impls[0]["aphs"]):
                    for a, b in zip(ra, rb):
                        if (a == "inf") != (b == "inf") or (a != "inf" and abs(a - b) > 1e-9):
                            diff.append("aph")
                if diff:
                    ctx.violation("ego-vs-map:" + "+".join(sorted(set(diff))), "ego-frame and map-frame executions of one scene differ in %s" % sorted(set(diff)),
                                  {"cfg": c, "frame": f, "ego_impl": impls[0], "map_impl": im})
    ctx.extra["scenes_with_single_spec_outcome_compared_directly"] = nsingle
    # tracking task with a moving ego: the ego-frame and map-frame executions must yield the same MOTA / MOTP / ID switches (and both
    # must be behaviours of Clear.tla)
    from . import tracking_manager

    ctx.extra["tracking_histories_in_both_frames"] = tracking_manager.run(ctx, renderings=("base_link", "map"), n=25 if ctx.quick else 250, compare=True)
    # engine T: large random scenes stored in map under an arbitrary ego pose must be behaviours of the same (ego-relative) specification
    from . import pipeline_trace

    ctx.extra["manager_executions_validated_as_traces"] = pipeline_trace.run(ctx, n=150 if ctx.quick else 3000, want=lambda rendering, clause: rendering == "map")
    # ground truth obtained by time lookup (exact and interpolated) from the manager, moving ego, both storage frames
    from ..core import pmap

    scen = pmap(lookup_and_evaluate, [(ctx.seed, k) for k in range(40 if ctx.quick else 400)], chunks=1)
    for k, sc in enumerate(scen):
        ctx.traces += 1
        ctx.evaluations += 1
        ctx.nontrivial_count += 1
        a, b = sc["results"]["base_link"], sc["results"]["map"]
        for qi, (x, y) in enumerate(zip(a, b)):
            interp = sc["queries"][qi] not in sc["times"]
            if x != y:
                ctx.violation("lookup-then-evaluate:ego-vs-map:%s" % ("interpolated" if interp else "exact"),
                              "query %d (%s): ego-frame evaluation %s, map-frame evaluation %s" % (sc["queries"][qi], "interpolated" if interp else "exact", x, y), sc)
            elif isinstance(x, tuple) and x[0] + x[2] > sc["nobj"]:
                ctx.violation("lookup-then-evaluate:too-many-ground-truths", "query %d: %d objects in the scene, result %s" % (sc["queries"][qi], sc["nobj"], x), sc)
    ctx.extra["lookup_then_evaluate_scenarios"] = len(scen)
    # the 1/3/9 partition into areas around the ego (Areas.tla): the same points around a moving ego, stored in base_link and in map
    from . import analyzer

    analyzer.areas_run(ctx)
    ctx.rule = (
        "Manager.tla describes a frame in ego-relative coordinates only. Every lattice scene TLC enumerates (families as in C03) is executed by the "
        "real manager with objects stored in base_link and stored in map under two ego poses (quarter turn + large translation; arbitrary yaw 0.7 "
        "rad); the map executions must be outcomes of the same specification behaviour, and where the specification admits one outcome the ego and "
        "map executions are compared field by field (object results, critical ground truth, TP/FP/FN/TN, AP, APH). Random float scenes and tracking "
        "sequences with a moving ego are rendered in both frames and validated against the same abstract input as traces."
    )
    ctx.exhaustive = False
    ctx.assumptions += ["no decision within tolerance of its boundary (lattice bounds in odd half units; trace driver margins)"]
