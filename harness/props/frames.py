"""C07 — results do not depend on the coordinate frame the objects are stored in (Manager.tla is frame-free; engines R, T)."""
from __future__ import annotations

from ..core import Ctx
from . import pipeline


def run(ctx: Ctx):
    def want(rendering, kind, fields):
        return rendering == "map"

    nsingle = 0
    for c, f, specs, impls in pipeline.run_pipeline(ctx, want):
        # direct equality of the ego and the map executions where the specification admits a single outcome
        if len(specs) == 1 and impls[0] is not None:
            nsingle += 1
            for k, im in enumerate(impls[1:], 1):
                if im is None:
                    continue
                diff = [fld for fld in ("rs2", "g2", "tp", "fp", "fn", "tn", "nsucc", "nfail") if im[fld] != impls[0][fld]]
                for ra, rb in zip(im["aps"], impls[0]["aps"]):
                    for a, b in zip(ra, rb):
                        if (a == "inf") != (b == "inf") or (a != "inf" and abs(a - b) > 1e-9):
                            diff.append("ap")
                for ra, rb in zip(im["aphs"], impls[0]["aphs"]):
                    for a, b in zip(ra, rb):
                        if (a == "inf") != (b == "inf") or (a != "inf" and abs(a - b) > 1e-9):
                            diff.append("aph")
                if diff:
                    ctx.violation("ego-vs-map:" + "+".join(sorted(set(diff))), "ego-frame and map-frame executions of one scene differ in %s" % sorted(set(diff)),
                                  {"cfg": c, "frame": f, "ego_impl": impls[0], "map_impl": im})
    ctx.extra["scenes_with_single_spec_outcome_compared_directly"] = nsingle
    # tracking task with a moving ego: the ego-frame and map-frame executions must yield the same MOTA / MOTP / ID switches (and both
    # must be behaviours of Clear.tla)
    from . import tracking_manager

    ctx.extra["tracking_histories_in_both_frames"] = tracking_manager.run(ctx, renderings=("base_link", "map"), n=25 if ctx.quick else 250, compare=True)
    ctx.rule = (
        "Manager.tla describes a frame in ego-relative coordinates only. Every lattice scene TLC enumerates (families as in C03) is executed by the "
        "real manager with objects stored in base_link and stored in map under two ego poses (quarter turn + large translation; arbitrary yaw 0.7 "
        "rad); the map executions must be outcomes of the same specification behaviour, and where the specification admits one outcome the ego and "
        "map executions are compared field by field (object results, critical ground truth, TP/FP/FN/TN, AP, APH). Random float scenes and tracking "
        "sequences with a moving ego are rendered in both frames and validated against the same abstract input as traces."
    )
    ctx.exhaustive = False
    ctx.assumptions += ["no decision within tolerance of its boundary (lattice bounds in odd half units; trace driver margins)"]
