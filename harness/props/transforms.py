"""C18 — Transforms.tla bound to HomogeneousMatrix / TransformDict / TransformKey (engines M, R, T)."""
from __future__ import annotations

import math
import os
import random

import numpy as np

from .. import tlc as T
from .. import trace
from ..core import Ctx, pmap
from ..tlaval import load_dump
from .pipeline import plain

INV = ["LawInverse", "LawCompose", "LawAssoc", "LawRegistryOnePerKey"]


def hm(el, how):
    """real HomogeneousMatrix for element el; `how` selects the input form of the rotation"""
    from pyquaternion import Quaternion

    from perception_eval.common.transform import HomogeneousMatrix

    R = np.array(el["R"], dtype=float)
    t = np.array(el["t"], dtype=float)
    if how == "int-translation":       # the lattice translations are integers: as a tuple of Python ints, rotation as a quaternion
        from pyquaternion import Quaternion as _Q

        from perception_eval.common.transform import HomogeneousMatrix as _H

        return _H(tuple(int(v) for v in el["t"]), _Q(matrix=R), src=el["src"], dst=el["dst"])
    if how == "matrix":
        rot = R
    elif how == "rotation-4x4":        # "matrix in the shape 3x3 or 4x4": the homogeneous form of the rotation alone
        rot = np.eye(4)
        rot[:3, :3] = R
    elif how == "quat-list":           # "(w, x, y, z)" as a plain list of numbers
        rot = [float(v) for v in Quaternion(matrix=R).elements]
    else:
        q = Quaternion(matrix=R)
        rot = q if how == "quat" else Quaternion(-q.elements)
    if how == "4x4":
        m = np.eye(4)
        m[:3, :3] = R
        m[:3, 3] = t
        return HomogeneousMatrix.from_matrix(m, el["src"], el["dst"])
    return HomogeneousMatrix(t, rot, src=el["src"], dst=el["dst"])


def same_elem(M, el):
    return (np.allclose(M.matrix[:3, :3], np.array(el["R"], float), atol=1e-9) and np.allclose(M.matrix[:3, 3], np.array(el["t"], float), atol=1e-9)
            and M.src == el["src"] and M.dst == el["dst"] and np.allclose(M.rotation.rotation_matrix, np.array(el["R"], float), atol=1e-9)
            and np.allclose(M.position, np.array(el["t"], float), atol=1e-9))


def replay_pair(arg):
    from pyquaternion import Quaternion

    A, B, pose, out = arg
    mism = []
    n = 0
    for how in ("quat", "negquat", "matrix", "4x4", "int-translation", "rotation-4x4", "quat-list"):
        n += 1
        rep = {"A": A, "B": B, "pose": pose, "input_form": how, "spec": out}
        try:
            MA, MB = hm(A, how), hm(B, how)
            p = np.array(pose["p"], float)
            Rp = np.array(pose["R"], float)
            qp = Quaternion(matrix=Rp)
            pos = MA.transform(tuple(p))
            pos2, rot2 = MA.transform(tuple(p), qp)
            pos3, rot3 = MA.transform(position=tuple(p), rotation=Rp)
            want = out["applyA"]
            if not (np.allclose(pos, want["p"], atol=1e-9) and np.allclose(pos2, want["p"], atol=1e-9) and np.allclose(pos3, want["p"], atol=1e-9)):
                mism.append(("transform-position", "transform(position) = %s, specification %s" % (list(pos), want["p"]), rep))
            if not (np.allclose(rot2.rotation_matrix, want["R"], atol=1e-9) and np.allclose(rot3.rotation_matrix, want["R"], atol=1e-9)):
                mism.append(("transform-orientation", "transform(position, rotation) orientation differs", rep))
            inv = MA.inv()
            if not same_elem(inv, out["invA"]):
                mism.append(("inverse", "inv() = %s %s->%s, specification %s" % (inv.matrix.round(6).tolist(), inv.src, inv.dst, out["invA"]), rep))
            bp, br = inv.transform(pos2, rot2)
            if not (np.allclose(bp, pose["p"], atol=1e-9) and np.allclose(br.rotation_matrix, pose["R"], atol=1e-9)):
                mism.append(("inverse-round-trip", "inverse does not undo the transform", rep))
            if not same_elem(inv.inv(), A):
                mism.append(("inverse-involutive", "inv().inv() differs from the transform", rep))
            try:
                C = MA.dot(MB)
                ok = True
            except ValueError:
                ok = False
            if ok != out["composable"]:
                mism.append(("mismatched-frames-" + ("accepted" if ok else "rejected"), "dot() with A.src=%s B.dst=%s -> %s" % (A["src"], B["dst"], ok), rep))
            elif ok:
                if not same_elem(C, out["compose"]):
                    mism.append(("compose", "dot() = %s %s->%s, specification %s" % (C.matrix.round(6).tolist(), C.src, C.dst, out["compose"]), rep))
                C2 = MB.transform(MA)            # transform(matrix) == matrix.dot(self)
                C3 = MB.transform(matrix=MA)
                if not (same_elem(C2, out["compose"]) and same_elem(C3, out["compose"])):
                    mism.append(("transform-matrix", "transform(matrix) differs from matrix.dot(self)", rep))
                two = MA.transform(MB.transform(tuple(p)))
                if not np.allclose(C.transform(tuple(p)), two, atol=1e-9):
                    mism.append(("compose-two-steps", "composition differs from two steps", rep))
        except Exception as ex:
            mism.append(("raised", "raised %r" % (ex,), rep))
    # the arrays handed to the constructors are the caller's scratch buffers: once built, a transform is what its matrix says, whatever
    # the caller writes into those buffers afterwards
    try:
        from perception_eval.common.transform import HomogeneousMatrix

        t_buf = np.array(A["t"], dtype=float)
        m_buf = np.eye(4)
        m_buf[:3, :3] = np.array(A["R"], float)
        m_buf[:3, 3] = t_buf
        M1 = HomogeneousMatrix(t_buf, Quaternion(matrix=np.array(A["R"], float)), src=A["src"], dst=A["dst"])
        M2 = HomogeneousMatrix.from_matrix(m_buf, A["src"], A["dst"])
        p = np.array(pose["p"], float)
        before = [np.array(M.transform(tuple(p))) for M in (M1, M2)] + [M.inv().matrix.copy() for M in (M1, M2)]
        t_buf += 100.0
        m_buf[:3, 3] -= 55.0
        after = [np.array(M.transform(tuple(p))) for M in (M1, M2)] + [M.inv().matrix.copy() for M in (M1, M2)]
        mat_ok = all(np.allclose(M.matrix[:3, 3], np.array(A["t"], float), atol=1e-9) for M in (M1, M2))
        if not mat_ok or any(not np.allclose(x, y, atol=1e-9) for x, y in zip(before, after)):
            mism.append(("depends-on-callers-buffer", "after the caller reused its translation / matrix buffer, transform(p) or inv() of the built transform changed",
                         {"A": A, "pose": pose}))
    except Exception as ex:
        mism.append(("raised", "buffer-reuse check raised %r" % (ex,), {"A": A}))
    return n, mism


SPELL = [lambda s, d, K, F: (F.from_value(s), F.from_value(d)), lambda s, d, K, F: (s, d), lambda s, d, K, F: (F.from_value(s), d),
         lambda s, d, K, F: (s.upper(), d.upper()), lambda s, d, K, F: K(s, d), lambda s, d, K, F: K(F.from_value(s), d),
         lambda s, d, K, F: (s.lower(), d.lower()), lambda s, d, K, F: (F.from_value(s).value, F.from_value(d))]


def rename_frames(log, idx):
    """the abstract frames of a registry behaviour are realised by a rotating choice of FrameID members, so that every member (every spelling of
    its name, whatever the case of its value) takes part"""
    from perception_eval.common.schema import FrameID

    members = [m.value for m in FrameID]
    names = sorted({op[k] for op in log for k in ("s", "d") if k in op} | {op["e"][k] for op in log if "e" in op for k in ("src", "dst")})
    if idx % 3 == 0:
        return log, {n_: n_ for n_ in names}
    ren = {n_: members[(idx + 7 * i) % len(members)] for i, n_ in enumerate(names)}
    if len(set(ren.values())) != len(ren):
        return log, {n_: n_ for n_ in names}
    out = []
    for op in log:
        op = dict(op)
        for k in ("s", "d"):
            if k in op:
                op[k] = ren[op[k]]
        if "e" in op:
            op["e"] = dict(op["e"], src=ren[op["e"]["src"]], dst=ren[op["e"]["dst"]])
        out.append(op)
    return out, ren


def replay_registry(arg):
    from perception_eval.common.schema import FrameID
    from perception_eval.common.transform import TransformDict, TransformKey

    log, pose, idx = arg
    log, ren = rename_frames(log, idx)
    mism = []
    n = 0
    for ctor in ("setitem", "constructor"):
        n += 1
        td = TransformDict()
        regs = []
        rep = {"log": log, "how": ctor, "frames": ren}
        for step, op in enumerate(log):
            if op["op"] == "register":
                try:
                    M = hm(op["e"], "quat")
                except Exception as ex:
                    mism.append(("registry-frame-name-rejected", "step %d: a matrix %s -> %s cannot be built from the frame names: %r" % (step, op["e"]["src"], op["e"]["dst"], ex), rep))
                    break
                if ctor == "setitem":
                    td[(op["e"]["src"], op["e"]["dst"])] = M
                else:
                    regs = [r for r in regs if not (r.src == M.src and r.dst == M.dst)] + [M]
                    td = TransformDict(list(regs))
            else:
                answers = []
                for sp in SPELL:
                    try:
                        key = sp(op["s"], op["d"], TransformKey, FrameID)
                        r = td.transform(key, tuple(float(v) for v in pose["p"]))
                        answers.append(("ok", tuple(round(float(v), 9) for v in r)))
                    except KeyError:
                        answers.append(("keyerror", ()))
                    except Exception as ex:
                        answers.append(("raised %s" % type(ex).__name__, ()))
                if len(set(answers)) != 1:
                    mism.append(("registry-spelling", "step %d: key spellings disagree: %s" % (step, answers), rep))
                a0 = answers[0]
                if op["kind"] == "keyerror":
                    if a0[0] != "keyerror":
                        mism.append(("registry-missing-not-keyerror", "step %d: unregistered %s->%s answered %s" % (step, op["s"], op["d"], a0), rep))
                elif a0[0] != "ok" or not np.allclose(a0[1], op["p"], atol=1e-9):
                    mism.append(("registry-%s" % op["kind"], "step %d: query %s->%s (%s) = %s, specification %s" % (step, op["s"], op["d"], op["kind"], a0, op["p"]), rep))
                if op["kind"] == "identity" and a0[0] == "ok":
                    pin = (1.5, 2.5, 3.5)
                    if td.transform((op["s"], op["d"]), pin) is not pin:
                        mism.append(("registry-identity-not-unchanged", "X->X does not return its input unchanged", rep))
                    # ... in every input form the method accepts (positional / keyword position, pose, matrix)
                    from pyquaternion import Quaternion

                    from perception_eval.common.transform import HomogeneousMatrix

                    qin = Quaternion(axis=[0.0, 0.0, 1.0], radians=0.3)
                    Min = HomogeneousMatrix(pin, qin, src=op["s"], dst=op["d"])
                    forms = [("pose", lambda: td.transform((op["s"], op["d"]), pin, qin), lambda r: r[0] is pin and r[1] is qin),
                             ("position=", lambda: td.transform((op["s"], op["d"]), position=pin), lambda r: r is pin),
                             ("position=, rotation=", lambda: td.transform((op["s"], op["d"]), position=pin, rotation=qin), lambda r: r[0] is pin and r[1] is qin),
                             ("matrix", lambda: td.transform((op["s"], op["d"]), Min), lambda r: r is Min),
                             ("matrix=", lambda: td.transform((op["s"], op["d"]), matrix=Min), lambda r: r is Min)]
                    for name_, call, ok in forms:
                        try:
                            if not ok(call()):
                                mism.append(("registry-identity-not-unchanged", "X->X with input form `%s` does not return its input unchanged" % name_, rep))
                        except Exception as ex:
                            mism.append(("registry-identity-not-unchanged", "X->X with input form `%s` raised %r" % (name_, ex), rep))
    return n, mism


def trace_events(seed, n):
    from pyquaternion import Quaternion

    from perception_eval.common.transform import HomogeneousMatrix

    rng = random.Random(seed)
    frames = ["base_link", "map", "lidar_top", "cam_front"]
    evs, info = [], {}
    f9 = lambda v: int(min(2 * 10**9, round(float(v) * 1e9)))
    for tid in range(1, n + 1):
        def rnd(src, dst):
            ax = [rng.gauss(0, 1) for _ in range(3)]
            # any angle, with the special ones drawn often: tiny (a nearly aligned sensor), half / quarter turns, exactly zero
            ang = rng.uniform(-math.pi, math.pi) if rng.random() < 0.6 else rng.choice([0.0, 1e-4, -3e-3, 5e-3, 8e-3, -0.02, math.pi, -math.pi / 2, math.pi - 1e-3])
            q = Quaternion(axis=ax, radians=ang)
            if rng.random() < 0.5:
                q = Quaternion(-q.elements)
            t = [rng.uniform(-1000, 1000) for _ in range(3)]
            rot = q if rng.random() < 0.6 else q.rotation_matrix
            return HomogeneousMatrix(t, rot, src=src, dst=dst)
        a, b, c = rng.sample(frames, 3)
        AB = rnd(a, b)
        BC = rnd(b, c)
        p = np.array([rng.uniform(-100, 100) for _ in range(3)])
        q0 = Quaternion(axis=[rng.gauss(0, 1) for _ in range(3)], radians=rng.uniform(-math.pi, math.pi))
        pos, rot = AB.transform(tuple(p), q0)
        bp, br = AB.inv().transform(pos, rot)
        AC = BC.dot(AB)
        two = BC.transform(AB.transform(tuple(p)))
        pm = np.eye(4)
        pm[:3, :3] = q0.rotation_matrix
        pm[:3, 3] = p
        prod = AB.matrix @ pm
        try:
            AB.dot(BC) if a != c else None
            rejected = a == c
        except ValueError:
            rejected = True
        ii = AB.inv().inv()
        evs.append(dict(tid=tid, round_trip_pos=f9(np.abs(bp - p).max()), round_trip_rot=f9(np.abs(br.rotation_matrix - q0.rotation_matrix).max()),
                        compose_vs_steps=f9(np.abs(AC.transform(tuple(p)) - two).max()),
                        pose_vs_matrix=f9(max(np.abs(prod[:3, 3] - pos).max(), np.abs(prod[:3, :3] - rot.rotation_matrix).max())),
                        inv_inv=f9(np.abs(ii.matrix - AB.matrix).max()),
                        labels_ok=1 if (AC.src == a and AC.dst == c and AB.inv().src == b and AB.inv().dst == a and ii.src == a and ii.dst == b) else 0,
                        mismatch_rejected=1 if rejected else 0))
        info[tid] = dict(frames=[a, b, c], AB=AB.matrix.round(4).tolist(), p=p.round(3).tolist())
    return evs, info


def run(ctx: Ctx):
    consts = dict(TVals="{-1,0,2}", Frames='{"base_link","map","lidar_top"}', Sample="40" if ctx.quick else "150", MaxOps="4",
                  RegFrames='{"base_link","map"}' if ctx.quick else '{"base_link","map","lidar_top"}')
    res = T.run_model("MC_Transforms", "MCT_" + ctx.pid, consts, invariants=INV, model_values=(), tlc_kwargs=dict(dump=True, allow_violation=False, seed=ctx.seed, timeout=3000))
    ctx.add_tlc(res, "MC_Transforms %s" % consts, must_take=["Eval", "RegisterOp", "QueryOp"])
    states, _ = load_dump(res.dump_path)
    os.remove(res.dump_path)
    pairs, regs = [], []
    for st in states:
        if st["kind"] in ("pair", "triple") and st["phase"] == "done":
            pairs.append((plain(st["A"]), plain(st["B"]), plain(st["pose"]), plain(st["out"])))
        elif st["kind"] == "registry" and len(st["log"]) > 0 and st["log"][-1]["op"] == "query":
            regs.append((plain(st["log"]), plain(st["pose"]), len(regs)))
    for items, fn in ((pairs, replay_pair), (regs, replay_registry)):
        outs = pmap(fn, items)
        for it, (n, mism) in zip(items, outs):
            ctx.traces += n
            ctx.evaluations += n
            for clause, msg, rep in mism:
                ctx.violation(clause, msg, rep)
    ctx.nontrivial_count += sum(1 for p_ in pairs if p_[3]["composable"]) + sum(1 for r in regs if any(o["op"] == "register" for o in r[0]))
    ctx.sample({"A": pairs[len(pairs) // 2][0], "B": pairs[len(pairs) // 2][1], "pose": pairs[len(pairs) // 2][2], "spec": pairs[len(pairs) // 2][3]})
    ctx.sample({"registry_behaviour": regs[len(regs) // 2][0]})
    evs, info = trace_events(ctx.seed, 1500 if ctx.quick else 15000)
    rej = trace.validate(ctx, "Trace_Transforms", evs)
    ctx.traces += len(evs)
    ctx.evaluations += len(evs)
    ctx.nontrivial_count += len(evs)
    for t_, line, clause in rej:
        ctx.violation("trace:" + clause, "%s -> %s" % (info[t_], clause), info[t_])
    ctx.sample(info[len(info) // 2])
    ctx.exhaustive = False
    ctx.rule = (
        "TLC checks the group laws of Transforms.tla (inverse round trip on poses, involution, labels, composition = two steps, composition labels, "
        "associativity, composition with the inverse = identity) over sampled pairs / triples of elements of Z^3 x| O_h+ (24 cube rotations, "
        "translations over {-1,0,2}^3, frames base_link/map) and enumerates all registry behaviours (Register / Query over three frames, depth 3-4); "
        "each pair is realised as real HomogeneousMatrix objects from a quaternion, its negation, a 3x3 matrix and a 4x4 matrix and transform / "
        "dot / inv / transform(matrix) compared exactly, mismatched frames must raise; each registry behaviour is replayed on a real TransformDict "
        "(item assignment and constructor), every query in six key spellings. Random axis/angle rotations are validated as traces (residuals). "
        "Non-trivial = composable pair / registry behaviour with a registration / trace."
    )
    ctx.assumptions += ["exact on the cube group; arbitrary rotations via residuals with tolerance 2e-6 on coordinates up to 1e3 m"]
