"""C08 — loosening a matching threshold (MC_Monotone.tla, Ap.tla PromotionMonotone, PassFail.tla; engines M, R, T)."""
from __future__ import annotations

import math
import os
import random

from .. import tlc as T
from .. import trace
from ..core import Ctx, pmap
from ..tlaval import load_dump
from . import ap as apmod

W = 2
RUNGS = [0.0, 1.0, 2.0]   # the tightest distance threshold is 0: nothing beats it


def build(r, rng):
    from perception_eval.evaluation.result.object_result import DynamicObjectWithPerceptionResult

    from ..build import obj3d

    res, gts = [], []
    for k, x in enumerate(r):
        conf = 0.99 - 0.003 * k
        base = (12.0 * k, 4.0, 0.0)
        if x >= 10:
            lvl, w = x // 10, x % 10
            phi = math.atan2(math.sin(math.pi / 4 + 2.39996 * k), math.cos(math.pi / 4 + 2.39996 * k))   # base headings on both sides of the +-pi cut
            est = obj3d(base, yaw=phi + (1.0 if k % 2 == 0 else -1.0) * (W - w) * math.pi / W, label="car", score=conf, vid=k + 1)
            # level l beats rungs l..3 : l = 2 -> distance 0.5 (< 1.0), l = 3 -> 1.5 (< 2.0), l = 4 -> 2.5 (beats none);
            # level 1 would have to beat threshold 0.0, which no distance can (such states are skipped)
            gt = obj3d((base[0] + lvl - 1.5, base[1], 0.0), yaw=phi, label="car", score=1.0, vid=k + 1)
        elif x == -1:
            est, gt = obj3d(base, label="car", score=conf, vid=k + 1), None
        else:
            est = obj3d(base, label="car", score=conf, vid=k + 1)
            gt = obj3d(base, label="pedestrian", score=1.0, vid=k + 1)
        res.append(DynamicObjectWithPerceptionResult(est, gt))
        if gt is not None:
            gts.append(gt)
    rng.shuffle(res)
    return res, gts


def replay(arg):
    from perception_eval.evaluation.matching.objects_filter import get_negative_objects, get_positive_objects
    from perception_eval.evaluation.metrics.detection.ap import Ap
    from perception_eval.evaluation.metrics.detection.tp_metrics import TPMetricsAp, TPMetricsAph

    from ..build import AW, MODES, vid

    r, g, out, seed = arg
    res, gts = build(r, random.Random(seed))
    mism = []
    rep = {"ranking(10*level+weight | -1 FP | -2 ignored)": list(r), "g": g, "spec": out}
    prev_tp, prev_fn, prev_ap, prev_aph = None, None, None, None
    for j, thr in enumerate(RUNGS):
        sp = out[j]
        try:
            tp, fp = get_positive_objects(res, [AW["car"]], MODES["center"], [thr])
            tn, fn = get_negative_objects(gts, res, [AW["car"]], MODES["center"], [thr])
            ap = Ap(TPMetricsAp(), [list(res)], g, [AW["car"]], MODES["center"], [thr]).ap
            aph = Ap(TPMetricsAph(), [list(res)], g, [AW["car"]], MODES["center"], [thr]).ap
        except Exception as ex:
            mism.append(("raised", "raised %r" % (ex,), rep))
            return 1, mism
        tps = {vid(x.estimated_object) for x in tp}
        if len(tps) != sp["ntp"]:
            mism.append(("tp-count", "threshold %s: %d TPs, specification %d" % (thr, len(tps), sp["ntp"]), rep))
        for name, val, num in (("ap", ap, sp["ap"]), ("aph", aph, sp["aph"])):
            ok = (val == float("inf")) if num == -1 else (abs(val) < 1e-12 if sp["unit"] == 0 else abs(val - num / sp["unit"]) < 1e-9)
            if not ok:
                mism.append((name + "-value", "threshold %s: %s = %r, specification %s/%s" % (thr, name, val, num, sp["unit"]), rep))
        if prev_tp is not None:
            if not prev_tp <= tps:
                mism.append(("tp-lost", "TP %s at threshold %s is no TP at looser %s" % (sorted(prev_tp - tps), RUNGS[j - 1], thr), rep))
            if len(fn) > prev_fn:
                mism.append(("fn-increased", "FN count grew from %d to %d when loosening" % (prev_fn, len(fn)), rep))
            if ap != float("inf") and (ap < prev_ap - 1e-12 or aph < prev_aph - 1e-12):
                mism.append(("ap-decreased", "AP %r -> %r / APH %r -> %r when loosening" % (prev_ap, ap, prev_aph, aph), rep))
        prev_tp, prev_fn, prev_ap, prev_aph = tps, len(fn), ap, aph
    return 1, mism


def _tl_bucket(rng):
    """2-D traffic-light detection results (ROIs) with labels incl. `unknown`; returns (results, bucket label, g, prm)"""
    from perception_eval.evaluation.result.object_result import DynamicObjectWithPerceptionResult

    from ..build import obj2d

    labels = ["green", "red", "unknown", "traffic_light"]
    lb = rng.choice(labels)
    n = rng.randint(1, 40)
    confs = rng.sample(range(1, 100000), n)
    mode = rng.choice(["center", "iou2d"])
    res = []
    for k in range(n):
        off = (rng.randint(0, 800), rng.randint(0, 600))
        size = (rng.randint(10, 60), rng.randint(10, 60))
        est = obj2d(off, size=size, label=lb if rng.random() < 0.8 else rng.choice(labels), score=confs[k] / 100000.0, tl=True, vid=k + 1)
        if rng.random() < 0.15:
            gt = None
        else:
            d = rng.choice([0, 1, 3, 7, 15, 30])
            gt = obj2d((max(0, off[0] + rng.choice([-1, 1]) * d), max(0, off[1] + rng.choice([-1, 0, 1]) * d)), size=(size[0] + rng.randint(-3, 3) or 1, size[1] + rng.randint(-3, 3) or 1),
                       label=lb if rng.random() < 0.85 else rng.choice(labels), score=1.0, tl=True, vid=k + 1)
        res.append(DynamicObjectWithPerceptionResult(est, gt))
    g = sum(1 for r in res if r.ground_truth_object is not None and r.ground_truth_object.semantic_label.label.value == lb) + rng.choice([0, 1])
    return res, lb, g, dict(mode=mode, policy="DEFAULT")


def _one_mono(arg):
    from perception_eval.evaluation.matching.objects_filter import get_negative_objects, get_positive_objects
    from perception_eval.evaluation.metrics.detection.ap import Ap
    from perception_eval.evaluation.metrics.detection.map import Map
    from perception_eval.evaluation.metrics.detection.tp_metrics import TPMetricsAp, TPMetricsAph

    from ..build import AW, MODES, vid

    from ..build import TL

    seed, k = arg
    rng = random.Random(seed * 31337 + k)
    while True:
        if k % 4 == 3:
            results, lb, g, prm = _tl_bucket(rng)
            LB = TL[lb]
        else:
            results, g, prm = apmod._rand_bucket(rng)
            results = [r for r in results if r.ground_truth_object is None or r.ground_truth_object.semantic_label.label.value != "false_positive"][:120]
            LB = AW["car"]
        mode = prm["mode"]
        if mode in ("iou2d", "iou3d"):
            ladder = sorted(rng.sample([0.0, 0.05, 0.1, 0.2, 0.3, 0.45, 0.6, 0.8], 5), reverse=True)   # looser = smaller IoU
        elif k % 4 == 3:
            ladder = sorted(rng.sample([0.0, 0.5, 2.5, 5.5, 12.5, 25.5, 50.5], 5))                       # pixels
        else:
            ladder = sorted(rng.sample([0.0, 0.2, 0.4, 0.75, 1.2, 2.2, 4.5, 9.0], 5))
        vals = [r.get_matching(MODES[mode]).value for r in results if r.ground_truth_object is not None]
        if any(abs(v - t) < 1e-6 for v in vals for t in ladder):
            continue
        break
    gts = [r.ground_truth_object for r in results if r.ground_truth_object is not None]
    # instance tokens: some ground truths share one (the same instance annotated twice - two cameras, a split annotation); every one of them
    # is a ground truth of its own for the TP / FN decisions
    for idx_, o_ in enumerate(gts):
        o_.uuid = "inst-%d" % (idx_ % max(1, (2 * len(gts)) // 3))
    g = max(g, sum(1 for o in gts if o.semantic_label.label == LB))
    ntp, nfn, ap6, aph6, map6, subset = [], [], [], [], [], []
    prev = None
    # the same result objects have been judged before, in the sibling matching mode, at every other rung's numeric value (a configuration
    # lists centre- and plane-distance thresholds side by side): the ladder of `mode` is a function of (results, mode, thresholds) only
    sibling = {"center": "plane", "plane": "center", "iou2d": "iou3d", "iou3d": "iou2d"}[mode]
    if k % 4 != 3:
        for thr in ladder[::2]:
            get_positive_objects(results, [LB], MODES[sibling], [thr])
            get_negative_objects(gts, results, [LB], MODES[sibling], [thr])
    # mAP over two labels: the ladder's bucket (its ground-truth count may be smaller than its number of TPs - duplicate detections -, so that
    # its AP can exceed 1) and a small fixed second bucket
    g_map = g if k % 3 == 0 else max(1, g // (2 + k % 3))
    if k % 4 != 3:
        from perception_eval.evaluation.result.object_result import DynamicObjectWithPerceptionResult as _R

        from ..build import obj3d

        other = [_R(obj3d((70.0, 5.0, 0.0), label="pedestrian", score=0.7, vid=9001), obj3d((70.3, 5.0, 0.0), label="pedestrian", vid=9001)),
                 _R(obj3d((75.0, -5.0, 0.0), label="pedestrian", score=0.4, vid=9002), obj3d((75.0, -2.0, 0.0), label="pedestrian", vid=9002))]
    for thr in ladder:
        if k % 4 != 3:
            m_ = Map({LB: [list(results)], AW["pedestrian"]: [list(other)]}, {LB: g_map, AW["pedestrian"]: 2}, [LB, AW["pedestrian"]], MODES[mode], [thr, thr]).map
            map6.append(-1 if m_ == float("inf") else int(round(m_ * 1e6)))
        tp, _ = get_positive_objects(results, [LB], MODES[mode], [thr])
        _, fn = get_negative_objects(gts, results, [LB], MODES[mode], [thr])
        ids = {vid(r.estimated_object) for r in tp}
        a = Ap(TPMetricsAp(), [list(results)], g, [LB], MODES[mode], [thr]).ap
        h = Ap(TPMetricsAph(), [list(results)], g, [LB], MODES[mode], [thr]).ap if k % 4 != 3 else a
        ntp.append(len(ids))
        nfn.append(len(fn))
        ap6.append(-1 if a == float("inf") else int(round(a * 1e6)))
        aph6.append(-1 if h == float("inf") else int(round(h * 1e6)))
        if prev is not None:
            subset.append(1 if prev <= ids else 0)
        prev = ids
    ev = dict(tid=0, ev="Mono", ntp=ntp, nfn=nfn, ap6=ap6, aph6=aph6, map6=map6 if map6 else list(ap6), subset=subset, pfeq=[1] * len(ntp))
    return ev, dict(mode=mode, ladder=ladder, policy=prm["policy"], n=len(results), g=g, ntp=ntp, nfn=nfn, ap6=ap6, family="traffic_light_2d" if k % 4 == 3 else "autoware_3d")


_LCFG = {}


def _label_config(names):
    import shutil
    import tempfile

    from perception_eval.config import PerceptionEvaluationConfig

    if names not in _LCFG:
        tmp = tempfile.mkdtemp(prefix="verif_mono_")
        try:
            _LCFG[names] = PerceptionEvaluationConfig([], "base_link", tmp, {
                "evaluation_task": "detection", "target_labels": list(names), "label_prefix": "autoware", "merge_similar_labels": False, "max_x_position": 200.0,
                "max_y_position": 200.0, "min_point_numbers": [0] * len(names), "center_distance_thresholds": [1.0], "plane_distance_thresholds": [1.0],
                "iou_2d_thresholds": [0.5], "iou_3d_thresholds": [0.5]})
        finally:
            shutil.rmtree(tmp, ignore_errors=True)
    return _LCFG[names]


def _one_mono_labels(arg):
    """a ladder of per-label threshold LISTS over three labels: every rung loosens the threshold of one label and leaves the others alone"""
    from perception_eval.evaluation.matching.objects_filter import get_negative_objects, get_positive_objects
    from perception_eval.evaluation.metrics.detection.map import Map
    from perception_eval.evaluation.result.object_result import DynamicObjectWithPerceptionResult as _R

    from ..build import AW, MODES, obj3d, vid

    seed, k = arg
    rng = random.Random(seed * 27644437 + k)
    names = rng.sample(["car", "pedestrian", "bicycle", "bus", "truck"], 3)
    labels = [AW[n_] for n_ in names]
    mode = ("center", "plane")[k % 2]
    results, gts = [], []
    v = 0
    for n_ in names:
        for _ in range(rng.randint(1, 4)):
            v += 1
            base = (rng.uniform(-40, 40), rng.uniform(-40, 40), 0.0)
            est = obj3d(base, yaw=0.0, label=n_, score=rng.uniform(0.1, 0.9), vid=v)
            if rng.random() < 0.15:
                results.append(_R(est, None))
                continue
            off = rng.choice([0.3, 0.7, 1.2, 1.7, 2.2, 2.7, 3.3])
            gt = obj3d((base[0] + off, base[1], 0.0), yaw=0.0, label=n_, vid=v)
            gts.append(gt)
            results.append(_R(est, gt))
        if rng.random() < 0.3:
            v += 1
            gts.append(obj3d((rng.uniform(60, 80), rng.uniform(60, 80), 0.0), label=n_, vid=v))
    grid = [0.5, 1.0, 1.5, 2.0, 2.5, 3.0, 3.5]
    cur = [rng.choice(grid[:4]) for _ in names]
    ladder = [list(cur)]
    for _ in range(5):
        cand = [i for i in range(3) if cur[i] < grid[-1]]
        if not cand:
            break
        i = rng.choice(cand)
        cur[i] = rng.choice([t for t in grid if t > cur[i]])
        ladder.append(list(cur))
    gd = {lb: sum(1 for o in gts if o.semantic_label.label == lb) for lb in labels}
    ntp, nfn, map6, subset, pfeq = [], [], [], [], []
    prev = None
    ec = _label_config(tuple(names))
    from perception_eval.evaluation.result.perception_frame_config import CriticalObjectFilterConfig, PerceptionPassFailConfig
    from perception_eval.evaluation.result.perception_pass_fail_result import PassFailResult

    # the frame's critical filter lists the same labels in another order (each configuration takes its own list)
    crit = CriticalObjectFilterConfig(ec, names[1:] + names[:1], max_x_position_list=[200.0] * 3, max_y_position_list=[200.0] * 3)
    for thrs in ladder:
        tp, _ = get_positive_objects(results, labels, MODES[mode], list(thrs))
        _, fn = get_negative_objects(gts, results, labels, MODES[mode], list(thrs))
        if mode == "plane":
            # the frame-level pass / fail decision (plane distance) is the same decision
            pf = PassFailResult(1000, 0, crit, PerceptionPassFailConfig(ec, list(names), list(thrs)))
            pf.evaluate(list(results), list(gts))
            pfeq.append(1 if ({vid(r.estimated_object) for r in pf.tp_object_results} == {vid(r.estimated_object) for r in tp}
                              and sorted(vid(o) for o in pf.fn_objects) == sorted(vid(o) for o in fn)) else 0)
        else:
            pfeq.append(1)
        m_ = Map({lb: [[r for r in results if r.estimated_object.semantic_label.label == lb]] for lb in labels}, gd, labels, MODES[mode], list(thrs)).map
        ids = {vid(r.estimated_object) for r in tp}
        ntp.append(len(ids))
        nfn.append(len(fn))
        map6.append(-1 if m_ == float("inf") else int(round(m_ * 1e6)))
        if prev is not None:
            subset.append(1 if prev <= ids else 0)
        prev = ids
    ev = dict(tid=0, ev="Mono", ntp=ntp, nfn=nfn, ap6=list(map6), aph6=list(map6), map6=map6, subset=subset, pfeq=pfeq)
    return ev, dict(mode=mode, labels=names, ladder=ladder, n=len(results), ntp=ntp, nfn=nfn, ap6=map6, family="per-label-threshold-lists")


def run(ctx: Ctx):
    N = 3 if ctx.quick else 4
    L = math.lcm(*range(1, N + 1))
    res = T.run_model("MC_Monotone", "MCMO_" + ctx.pid, dict(W=str(W), N=str(N), L=str(L), Rungs="3", MaxG="4"), invariants=["TpNeverLost", "ApMonotone"],
                      model_values=(), tlc_kwargs=dict(dump=True, allow_violation=False, timeout=3000))
    ctx.add_tlc(res, "MC_Monotone N=%d rungs=3 W=2 G<=4" % N, must_take=["Next"])
    # the lemma behind the property: promoting one FP of a ranking to a TP never lowers the declarative AP / APH
    Np = 4
    lem = T.run_model("MC_Ap", "MCAP_promo", dict(W=str(W), N=str(Np), L=str(math.lcm(*range(1, Np + 1))), MaxG="4"), invariants=["InvPromotion", "InvOpEqDecl"],
                      model_values=(), tlc_kwargs=dict(allow_violation=False, timeout=3000))
    ctx.add_tlc(lem, "MC_Ap PromotionMonotone N=%d" % Np, must_take=["Eval"])
    states, _ = load_dump(res.dump_path, must_contain='phase = "done"')
    os.remove(res.dump_path)
    items = []
    for i, st in enumerate(states):
        if any(10 <= x < 20 for x in st["r"]):
            continue
        items.append((list(st["r"]), st["g"], [dict(o) for o in st["out"]], ctx.seed + i))
    if ctx.quick and len(items) > 12000:
        items = items[:: len(items) // 12000 + 1]
    outs = pmap(replay, items)
    for it, (n, mism) in zip(items, outs):
        ctx.traces += n
        ctx.evaluations += n
        if len({o["ntp"] for o in it[2]}) > 1:
            ctx.nontriv((tuple(it[0]), it[1]))
        for clause, msg, rep in mism:
            ctx.violation(clause, msg, rep)
    it = next(i for i in items if len({o["ntp"] for o in i[2]}) > 2)
    ctx.sample({"ranking": it[0], "g": it[1], "spec_per_rung": it[2]})
    n = 150 if ctx.quick else 1500
    outs = pmap(_one_mono, [(ctx.seed, k) for k in range(n)], chunks=4) + pmap(_one_mono_labels, [(ctx.seed, k) for k in range(2 * n)], chunks=4)
    evs, info = [], {}
    for tid, (ev, inf) in enumerate(outs, 1):
        ev["tid"] = tid
        evs.append(ev)
        info[tid] = inf
    rej = trace.validate(ctx, "Trace_Ap", evs, tag="Trace_Ap_mono_" + ctx.pid)
    ctx.traces += len(evs)
    ctx.evaluations += len(evs)
    ctx.nontrivial_count += sum(1 for e in evs if len(set(e["ntp"])) > 1)
    for t_, line, clause in rej:
        ctx.violation("trace:" + clause, "%s -> %s" % (info[t_], clause), info[t_])
    ctx.sample(info[len(info) // 2])
    ctx.exhaustive = False
    ctx.rule = (
        "TLC enumerates every ranking up to length N over {(level 1..4, heading weight 0..2), FP, ignored} x ground-truth count and checks along a "
        "ladder of three thresholds that TP sets only grow and AP / APH never decrease, plus the lemma that promoting one FP to a TP never lowers "
        "the declarative AP (all rankings <= 4); every (ranking, g) is realised as real results and get_positive_objects / get_negative_objects / Ap "
        "(AP and APH) evaluated at the three thresholds are compared with the specification per rung and for monotonicity; random result sets x "
        "random ladders of 5 thresholds in all four matching modes are validated as Mono traces. Non-trivial = TP count changes along the ladder."
    )
    ctx.assumptions += ["ordinary (non false-positive-labelled) ground truth only, as the statement requires", "trace driver keeps scores 1e-6 away from every rung"]
