"""C12 — Sensing.tla bound to crop_pointcloud / sensing results / SensingEvaluationManager (engines M, R, T)."""
from __future__ import annotations

import math
import os
import random
import shutil
import tempfile

import numpy as np

from .. import tlc as T
from .. import trace
from ..core import Ctx, pmap
from ..tlaval import load_dump
from .pipeline import plain

INV = ["LawPartition", "LawScaleMonotone", "LawOneStatus", "LawMustSubsetMay"]
SQ = "[ring |-> <<<<-2,-2>>,<<4,-2>>,<<4,3>>,<<-2,3>>>>, zlo |-> -1, zhi |-> 1]"
SQCW = "[ring |-> <<<<-2,3>>,<<4,3>>,<<4,-2>>,<<-2,-2>>>>, zlo |-> 0, zhi |-> 2]"
ELL = "[ring |-> <<<<-5,-5>>,<<5,-5>>,<<5,0>>,<<0,0>>,<<0,5>>,<<-5,5>>>>, zlo |-> -2, zhi |-> 2]"
# a small area that one object at the origin covers completely: an earlier area left with no stray point at all, followed by an area that
# has some (seeded C12_r10: an "early exit" that leaves the whole method instead of the loop over the boxes of one area)
TINY = "[ring |-> <<<<-1,-1>>,<<1,-1>>,<<1,1>>,<<-1,1>>>>, zlo |-> 0, zhi |-> 0]"
RANGES = dict(PX=(-6, 6), PY=(-6, 6), PZ=(-2, 2))
_CLOUD = None
_MGR = {}
_TMP = None


def cloud():
    """every lattice point of the block, 4th column = index"""
    global _CLOUD
    if _CLOUD is None:
        pts = [(x, y, z) for x in range(RANGES["PX"][0], RANGES["PX"][1] + 1) for y in range(RANGES["PY"][0], RANGES["PY"][1] + 1)
               for z in range(RANGES["PZ"][0], RANGES["PZ"][1] + 1)]
        _CLOUD = np.array([[p[0], p[1], p[2], i] for i, p in enumerate(pts)], dtype=float), {p: i for i, p in enumerate(pts)}
    return _CLOUD


def real_box(b, vis=None, uuid="g"):
    from perception_eval.common.schema import Visibility

    from ..build import obj3d

    o = obj3d(tuple(float(v) for v in b["c"]), yaw=math.atan2(b["dir"][1], b["dir"][0]), size=tuple(float(v) for v in b["s"]), label="car", uuid=uuid)
    if vis is not None:
        o.visibility = {"full": Visibility.FULL, "most": Visibility.MOST, "partial": Visibility.PARTIAL, "none": Visibility.NONE}[vis]
    return o


def ids(arr):
    return set(int(round(v)) for v in arr[:, 3]) if len(arr) else set()


def replay_box(arg):
    from perception_eval.common.point import crop_pointcloud

    b, scale, out = arg
    cl, index = cloud()
    s = scale[0] / scale[1]
    o = real_box(b)
    inside = {index[tuple(p)] for p in out["inside"]}
    bnd = {index[tuple(p)] for p in out["boundary"]}
    rep = {"box": b, "scale": scale, "spec_inside": len(inside), "spec_boundary": len(bnd)}
    mism = []
    try:
        gin = ids(o.crop_pointcloud(cl, bbox_scale=s, inside=True))
        gout = ids(o.crop_pointcloud(cl, bbox_scale=s, inside=False))
        gin2 = ids(crop_pointcloud(cl, o.get_corners(scale=s).tolist(), inside=True))
        n = o.get_inside_pointcloud_num(cl, s)
        ex = o.point_exist(cl, s)
        gin3 = ids(o.crop_pointcloud(cl[:, :3].copy(), bbox_scale=s)) if False else None
    except Exception as ex_:
        return 1, [("raised", "raised %r" % (ex_,), rep)]
    rep["impl_inside"] = len(gin)
    if not (inside <= gin <= inside | bnd):
        mism.append(("inside-points", "inside selection differs: missing %s, extra %s" % (sorted(inside - gin)[:5], sorted(gin - inside - bnd)[:5]), rep))
    if gin & gout or len(gin) + len(gout) != len(cl):
        mism.append(("partition", "inside and outside selections do not partition the cloud (%d + %d of %d)" % (len(gin), len(gout), len(cl)), rep))
    if gin2 != gin:
        mism.append(("corners-vs-object", "crop_pointcloud(get_corners) differs from DynamicObject.crop_pointcloud", rep))
    if n != len(gin) or ex != (n > 0):
        mism.append(("count", "get_inside_pointcloud_num %d vs %d" % (n, len(gin)), rep))
    # the same box pitched / rolled: its footprint can only shrink (by cos), and bottom and top stay at centre -+ height / 2, so the selection
    # is contained in the untilted one and never reaches above the top or below the bottom
    try:
        from pyquaternion import Quaternion

        ot = real_box(b)
        ot.state.orientation = ot.state.orientation * Quaternion(axis=[0, 1, 0], radians=0.3) * Quaternion(axis=[1, 0, 0], radians=-0.2)
        gt_ = ids(ot.crop_pointcloud(cl, bbox_scale=s, inside=True))
        gt_out = ids(ot.crop_pointcloud(cl, bbox_scale=s, inside=False))
        zs = {int(round(r[3])): r[2] for r in cl}
        half = float(b["s"][2]) / 2.0
        bad = sorted(i for i in gt_ if abs(zs[i] - float(b["c"][2])) > half + 1e-9)
        if bad or not gt_ <= (inside | bnd):
            mism.append(("tilted-box-above-top-or-below-bottom", "pitched/rolled box selects %d points outside the untilted selection (%d beyond bottom/top)" % (len(gt_ - inside - bnd), len(bad)), rep))
        if gt_ & gt_out or len(gt_) + len(gt_out) != len(cl):
            mism.append(("partition", "tilted box: inside and outside selections do not partition the cloud", rep))
    except Exception as ex_:
        mism.append(("raised", "tilted box raised %r" % (ex_,), rep))
    # the same box derived by the library's interpolation from two displaced copies that were already cropped with
    try:
        from ..build import derive

        od = derive(real_box(b))
        if ids(od.crop_pointcloud(cl, bbox_scale=s, inside=True)) != gin or od.get_inside_pointcloud_num(cl, s) != n:
            mism.append(("inside-points:derived-object", "an interpolated copy of the box selects other points than the box itself", rep))
    except Exception as ex_:
        mism.append(("raised", "derived box raised %r" % (ex_,), rep))
    # intensity column and a 3-column cloud select the same points
    g3 = o.crop_pointcloud(cl[:, :3].copy(), bbox_scale=s)
    if len(g3) != len(gin):
        mism.append(("extra-columns", "selection depends on extra columns", rep))
    return 1, mism


def area_list(ar):
    up = [(float(x), float(y), float(ar["zhi"])) for x, y in ar["ring"]]
    lo = [(float(x), float(y), float(ar["zlo"])) for x, y in ar["ring"]]
    return up + lo


def _mgr(t0, t1, minpts):
    from perception_eval.config import SensingEvaluationConfig
    from perception_eval.manager import SensingEvaluationManager

    global _TMP
    key = (t0, t1, minpts)
    if key not in _MGR:
        if _TMP is None:
            _TMP = tempfile.mkdtemp(prefix="verif_sens_")
            import atexit

            atexit.register(shutil.rmtree, _TMP, True)
        ec = SensingEvaluationConfig([], "base_link", os.path.join(_TMP, "s%d" % len(_MGR)),
                                     {"evaluation_task": "sensing", "target_uuids": None, "box_scale_0m": t0 / 10.0, "box_scale_100m": t1 / 10.0,
                                      "min_points_threshold": minpts})
        _MGR[key] = SensingEvaluationManager(evaluation_config=ec)
    m = _MGR[key]
    m.frame_results.clear()
    return m


def replay_frame(arg):
    from perception_eval.common.point import crop_pointcloud
    from perception_eval.evaluation.sensing.sensing_frame_config import SensingFrameConfig
    from perception_eval.evaluation.sensing.sensing_frame_result import SensingFrameResult

    from ..build import frame_gt

    objs, cfg, areas, out = arg
    cl, index = cloud()
    mism = []
    n = 0
    for how in ("frame_result", "manager"):
        n += 1
        real = [real_box(o["box"], o["vis"], uuid="g%d" % i) for i, o in enumerate(objs)]
        rep = {"objects": objs, "cfg": cfg, "areas": areas, "how": how, "spec_objects": out["objects"]}
        t0, t1 = cfg["t"]
        try:
            if how == "frame_result":
                fc = SensingFrameConfig(target_uuids=None, box_scale_0m=t0 / 10.0, box_scale_100m=t1 / 10.0, min_points_threshold=cfg["minPts"])
                fr = SensingFrameResult(fc, 1000, "0")
                fr.evaluate_frame(real, cl, [crop_pointcloud(cl, area_list(a)) for a in areas])
            else:
                fr = _mgr(t0, t1, cfg["minPts"]).add_frame_result(1000, frame_gt(real), cl, [area_list(a) for a in areas])
        except Exception as ex:
            mism.append(("raised", "raised %r" % (ex,), rep))
            continue
        if how == "manager" and areas:
            # the manager's own cropping of the non-detection areas (every scaled box removed from every area)
            try:
                cropped = _mgr(t0, t1, cfg["minPts"]).crop_pointcloud(real, cl, [area_list(a) for a in areas])
                for k, a in enumerate(out["areas"]):
                    must = {index[tuple(p)] for p in a["must"]}
                    may = {index[tuple(p)] for p in a["may"]}
                    gk = ids(cropped[k])
                    if not (must <= gk <= may):
                        mism.append(("manager-crop-pointcloud", "area %d: manager.crop_pointcloud keeps %d points, specification must %d may %d (extra %s)" % (
                            k, len(gk), len(must), len(may), sorted(gk - may)[:5]), rep))
            except Exception as ex:
                mism.append(("raised", "manager.crop_pointcloud raised %r" % (ex,), rep))
        where = {}
        for name, lst in (("success", fr.detection_success_results), ("fail", fr.detection_fail_results), ("warning", fr.detection_warning_results)):
            for r in lst:
                where.setdefault(r.ground_truth_object.uuid, []).append((name, r.inside_pointcloud_num))
        for i, o in enumerate(objs):
            got = where.get("g%d" % i, [])
            so = out["objects"][i]
            if len(got) != 1:
                mism.append(("object-classified-%d-times" % len(got), "object %d appears in %s" % (i, got), rep))
                continue
            st, cnt = got[0]
            if st not in so["statuses"]:
                mism.append(("object-status", "object %d classified %s (%d points), specification %s (inside %d, boundary %d)" % (
                    i, st, cnt, sorted(so["statuses"]), so["inside"], so["boundary"]), rep))
            if not (so["inside"] <= cnt <= so["inside"] + so["boundary"]):
                mism.append(("object-inside-count", "object %d: %d points inside, specification %d..%d" % (i, cnt, so["inside"], so["inside"] + so["boundary"]), rep))
        # the prisms themselves: inside / outside selections (both orientations) against the specification's membership
        if how == "frame_result":
            for k, a in enumerate(areas):
                pin = {index[tuple(p)] for p in out["prisms"][k]["inside"]}
                pbd = {index[tuple(p)] for p in out["prisms"][k]["boundary"]}
                gi_ = ids(crop_pointcloud(cl, area_list(a), inside=True))
                go_ = ids(crop_pointcloud(cl, area_list(a), inside=False))
                if not (pin <= gi_ <= pin | pbd):
                    mism.append(("prism-inside", "area %d: inside selection differs from the prism membership" % k, rep))
                if gi_ & go_ or len(gi_) + len(go_) != len(cl):
                    mism.append(("prism-partition", "area %d: inside (%d) and outside (%d) selections do not partition the cloud (%d)" % (k, len(gi_), len(go_), len(cl)), rep))
        got_arrays = [ids(a) for a in fr.pointcloud_failed_non_detection]
        gi = 0
        for k, a in enumerate(out["areas"]):
            must = {index[tuple(p)] for p in a["must"]}
            may = {index[tuple(p)] for p in a["may"]}
            if gi < len(got_arrays) and must <= got_arrays[gi] <= may and (must or got_arrays[gi]):
                gi += 1
            elif must:
                mism.append(("non-detection-points", "area %d: failure points %s, specification must %d may %d" % (
                    k, sorted(got_arrays[gi])[:6] if gi < len(got_arrays) else None, len(must), len(may)), rep))
                gi += 1 if gi < len(got_arrays) else 0
        if gi != len(got_arrays):
            mism.append(("non-detection-points", "unexpected extra failure arrays", rep))
    return n, mism


def trace_events(seed, n):
    """random float boxes / clouds: the harness classifies points that are WELL inside / outside by its own margin test and
    logs the counts of disagreements with the library (TLC checks they are zero and the partition / monotonicity counts)"""
    rng = random.Random(seed)
    evs, info = [], {}
    from ..build import obj3d

    for tid in range(1, n + 1):
        pos = (rng.uniform(-50, 50), rng.uniform(-50, 50), rng.uniform(-2, 2))
        yaw = rng.uniform(-math.pi, math.pi)
        size = (rng.uniform(0.5, 3), rng.uniform(0.5, 12), rng.uniform(0.5, 3))
        o = obj3d(pos, yaw=yaw, size=size)
        s1 = rng.choice([1.0, 1.2, 0.8])
        s2 = s1 * rng.choice([1.0, 1.1, 1.5])
        N = rng.choice([10, 100, 1000, 5000])
        dense = tid % 25 == 7
        if dense:       # a dense cloud (a real lidar sweep has a few 100k points)
            N = 60000 + rng.randint(0, 5000)
        # points around the box in its own frame
        nrs = np.random.RandomState(rng.randint(0, 2**31 - 1))
        loc = np.column_stack([nrs.uniform(-1.5, 1.5, N) * size[1], nrs.uniform(-1.5, 1.5, N) * size[0], nrs.uniform(-1.5, 1.5, N) * size[2]])
        c, s_ = math.cos(yaw), math.sin(yaw)
        pts = np.column_stack([c * loc[:, 0] - s_ * loc[:, 1] + pos[0], s_ * loc[:, 0] + c * loc[:, 1] + pos[1], loc[:, 2] + pos[2], np.arange(N), nrs.uniform(0, 1, N)])
        m = 1e-6
        well_in = (np.abs(loc[:, 0]) < s1 * size[1] / 2 - m) & (np.abs(loc[:, 1]) < s1 * size[0] / 2 - m) & (np.abs(loc[:, 2]) < size[2] / 2 - m)
        well_out = (np.abs(loc[:, 0]) > s1 * size[1] / 2 + m) | (np.abs(loc[:, 1]) > s1 * size[0] / 2 + m) | (np.abs(loc[:, 2]) > size[2] / 2 + m)
        if tid % 5 == 2:
            # the points the per-object sensing result reports inside (what the frame evaluation counts)
            from perception_eval.evaluation.sensing.sensing_result import DynamicObjectWithSensingResult

            gin = ids(DynamicObjectWithSensingResult(o, pts, s1, 1).inside_pointcloud)
            gin2 = ids(DynamicObjectWithSensingResult(o, pts, s2, 1).inside_pointcloud)
        else:
            gin = ids(o.crop_pointcloud(pts, bbox_scale=s1, inside=True))
            gin2 = ids(o.crop_pointcloud(pts, bbox_scale=s2, inside=True))
        gout = ids(o.crop_pointcloud(pts, bbox_scale=s1, inside=False))
        win = set(np.nonzero(well_in)[0].tolist())
        wout = set(np.nonzero(well_out)[0].tolist())
        evs.append(dict(tid=tid, n=N, n_in=len(gin), n_out=len(gout), overlap=len(gin & gout), well_in_missed=len(win - gin), well_out_included=len(wout & gin),
                        lost_by_enlarging=len(gin - gin2) if s2 >= s1 else 0))
        info[tid] = dict(pos=pos, yaw=yaw, size=size, scale=s1, scale2=s2, n=N, inside=len(gin))
    return evs, info


def run(ctx: Ctx):
    consts = dict(PX="-6..6", PY="-6..6", PZ="-2..2", Centres="{<<0,0,0>>,<<3,4,0>>,<<-3,0,4>>}", Sizes="{<<2,4,2>>,<<1,6,4>>,<<4,4,2>>}",
                  Dirs="{<<5,0>>,<<0,5>>,<<3,4>>,<<4,3>>,<<-4,3>>,<<-3,-4>>}", Scales="{<<1,1>>,<<3,2>>,<<2,1>>}", Areas="{%s,%s,%s,%s}" % (SQ, SQCW, ELL, TINY),
                  VisSet='{"full","partial","none"}', T0T1="{<<10,10>>,<<10,20>>}", MinPtsSet="{1,3,12}", MaxObjs="2", Sample="8" if ctx.quick else "60",
                  FarDists="{0, 37, 100, 101, 150, 300}")
    res = T.run_model("MC_Sensing", "MCSE_" + ctx.pid, consts, invariants=INV, model_values=(), tlc_kwargs=dict(dump=True, allow_violation=False, seed=ctx.seed, timeout=3000))
    ctx.add_tlc(res, "MC_Sensing (cloud = 13x13x5 lattice block)", must_take=["Eval"])
    states, _ = load_dump(res.dump_path, must_contain='phase = "done"')
    os.remove(res.dump_path)
    boxes = [(plain(st["box"]), plain(st["scale"]), plain(st["out"])) for st in states if st["kind"] == "box"]
    frames = [(plain(st["objs"]), plain(st["cfg"]), plain(st["areas"]), plain(st["out"])) for st in states if st["kind"] == "frame"]
    # the distance-dependent scale itself (linear in the distance, also beyond 100 m), at both places that compute it
    from perception_eval.evaluation.sensing.sensing_frame_config import SensingFrameConfig
    from perception_eval.util.math import get_bbox_scale

    for st in states:
        if st["kind"] != "scale":
            continue
        (t0, t1), d = st["cfg"]["t"], st["scale"][0]
        want = st["out"]["scaleAt"][0] / st["out"]["scaleAt"][1]
        ctx.traces += 1
        ctx.evaluations += 2
        rep = {"box_scale_0m": t0 / 10.0, "box_scale_100m": t1 / 10.0, "distance": d, "spec": list(st["out"]["scaleAt"])}
        try:
            got1 = SensingFrameConfig(target_uuids=None, box_scale_0m=t0 / 10.0, box_scale_100m=t1 / 10.0, min_points_threshold=1).get_scale_factor(float(d))
            got2 = get_bbox_scale(float(d), t0 / 10.0, t1 / 10.0)
            if abs(got1 - want) > 1e-12 or abs(got2 - want) > 1e-12:
                ctx.violation("scale-factor", "scale at %d m: frame config %r, manager %r, specification %r" % (d, got1, got2, want), rep)
        except Exception as ex:
            ctx.violation("raised", "scale factor raised %r" % (ex,), rep)
    for items, fn in ((boxes, replay_box), (frames, replay_frame)):
        outs = pmap(fn, items)
        for it, (n, mism) in zip(items, outs):
            ctx.traces += n
            ctx.evaluations += n
            for clause, msg, rep in mism:
                ctx.violation(clause, msg, rep)
    ctx.nontrivial_count += sum(1 for b in boxes if b[2]["inside"]) + sum(1 for f in frames if f[2])
    b0 = boxes[len(boxes) // 2]
    ctx.sample({"box": b0[0], "scale": b0[1], "spec_inside_points": len(b0[2]["inside"]), "spec_boundary_points": len(b0[2]["boundary"])})
    f0 = frames[len(frames) // 2]
    ctx.sample({"objects": f0[0], "cfg": f0[1], "areas": f0[2], "spec_objects": f0[3]["objects"]})
    evs, info = trace_events(ctx.seed, 300 if ctx.quick else 3000)
    rej = trace.validate(ctx, "Trace_Sensing", evs)
    ctx.traces += len(evs)
    ctx.evaluations += len(evs)
    ctx.nontrivial_count += sum(1 for e in evs if e["n_in"] > 0)
    for t_, line, clause in rej:
        ctx.violation("trace:" + clause, "%s -> %s" % (info[t_], clause), info[t_])
    ctx.exhaustive = False
    ctx.rule = (
        "TLC evaluates point-in-scaled-rotated-box exactly (Pythagorean headings, rational scales) for every lattice point of a 13x13x5 block against "
        "every box of the slice (3 centres x 3 sizes x 6 headings x 3 scales), checking the inside/boundary/outside partition and scale "
        "monotonicity, and evaluates sampled frames (1-2 objects x visibility x distance-dependent scale x minimum points x 0-2 polygonal prisms, "
        "convex / clockwise / concave) to per-object counts, admissible classifications and must/may failure points; every state is replayed "
        "through crop_pointcloud, DynamicObject.crop_pointcloud(inside=True/False), get_inside_pointcloud_num, SensingFrameResult.evaluate_frame "
        "and SensingEvaluationManager.add_frame_result, comparing index sets modulo boundary points. Random float boxes with clouds of 10..5000 "
        "points kept 1e-6 from the faces are validated as traces. Non-trivial = box with inside points / frame with a prism / trace with inside points."
    )
    ctx.assumptions += ["points exactly on a vertical face or polygon edge are excluded from comparison (boundary)", "object centres in frames have integer distance to the ego"]
