"""Engine T for the manager pipeline (filled in below)."""
C03_CLAUSES = set()


def run_traces(ctx, want_clause, dual_only=False):
    return
