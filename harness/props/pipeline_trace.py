"""Engine T for the manager pipeline: random centimetre-lattice scenes (up to 8 x 8 objects, +-40 m, random configurations) executed by the real
manager with the objects stored in base_link and in map under a random ego pose; every execution is recorded as one event per step of
Manager.tla and validated by TLC (Trace_Pipeline.tla)."""
from __future__ import annotations

import json
import math
import os
import random

from .. import tlc as T
from .. import trace
from ..core import pmap
from . import pipeline

MAXN = 8
SCALE = 0.01   # one lattice unit = 1 cm


def odd(v):
    return v if v % 2 else v + 1


def pair_lists(rng, lo, hi, n):
    """n odd half-unit bounds; for n = 2 the sum is 2 mod 4 (the mean bound is never hit by a lattice value)"""
    while True:
        vals = [odd(rng.randint(lo, hi)) for _ in range(n)]
        if n != 2 or sum(vals) % 4 == 2:
            return vals


def rand_case(rng):
    targets = rng.choice([["car", "pedestrian"], ["car", "pedestrian"], ["car", "pedestrian", "unknown"]])
    n = len(targets)
    policy = rng.choice(["DEFAULT", "ALLOW_UNKNOWN", "ALLOW_ANY"])

    def fparams(tight):
        p = dict(targets=targets, ignoreAttr=rng.random() < 0.3, xmax=[], ymax=[], dmax=[], dmin=[], minPts=[], conf=[], uuids=False)
        lo, hi = (3000, 8000) if tight else (6000, 9000)     # half-cm: 15 m .. 40 m / 30 m .. 45 m
        if rng.random() < 0.5:
            p["xmax"], p["ymax"] = pair_lists(rng, lo, hi, n), pair_lists(rng, lo, hi, n)
        else:
            p["dmax"], p["dmin"] = pair_lists(rng, lo, hi, n), pair_lists(rng, 1, 800, n)
        return p

    mf = fparams(False)
    if mf["dmin"]:
        mf["dmin"] = [mf["dmin"][0]] * n        # the manager takes one min_distance for all labels
        if n == 2 and sum(mf["dmin"]) % 4 != 2:
            mf["dmin"] = [mf["dmin"][0] + 2] * n if (2 * (mf["dmin"][0] + 2)) % 4 == 2 else [mf["dmin"][0]] * n
    mf["minPts"] = [rng.choice([0, 0, 3]) for _ in range(n)]
    if rng.random() < 0.4:
        mf["conf"] = [rng.choice([1000, 3000, 5000]) for _ in range(n)]      # confidence in 1e-4
    mf["uuids"] = rng.random() < 0.2
    cfg = dict(targets=targets, policy=policy, radius=[[odd(rng.randint(100, 1200)), 2] for _ in range(n)] if rng.random() < 0.5 else [],
               mfilter=mf, cd=pair_lists(rng, 60, 700, n), pd=pair_lists(rng, 60, 700, n) if rng.random() < 0.5 else [])
    crit = fparams(True)
    if rng.random() < 0.3:
        crit["minPts"] = [rng.choice([0, 3, 6]) for _ in range(n)]
    pf_targets = list(targets)
    if rng.random() < 0.3:
        rng.shuffle(pf_targets)
    if rng.random() < 0.2:
        pf_targets = pf_targets[:-1]
    pf = dict(targets=pf_targets, thr=[odd(rng.randint(60, 700)) for _ in pf_targets] if rng.random() < 0.8 else [])
    ng, ne = rng.randint(0, MAXN), rng.randint(0, MAXN)
    glabels = ["car", "car", "pedestrian", "pedestrian", "bus", "false_positive", "unknown"]
    elabels = ["car", "car", "pedestrian", "pedestrian", "unknown"]
    gts, used = [], set()
    while len(gts) < ng:
        x, y = rng.randint(-3500, 3500), rng.randint(-3500, 3500)
        lab = rng.choice(glabels)
        if (x, y, lab) in used:
            continue
        used.add((x, y, lab))
        gts.append(dict(x=x, y=y, label=lab, conf=10000, attr=rng.choice([0, 0, 0, 1, 2, 3]), pts=rng.choice([0, 2, 5, 9, 9, 9]), uuid=rng.random() < 0.7))
    ests, confs = [], rng.sample(range(500, 9900), ne)
    for i in range(ne):
        if gts and rng.random() < 0.75:
            g = rng.choice(gts)
            r_ = rng.choice([40, 150, 400])
            x, y = g["x"] + rng.randint(-r_, r_), g["y"] + rng.randint(-r_, r_)
            lab = g["label"] if (g["label"] in elabels and rng.random() < 0.8) else rng.choice(elabels)
        else:
            x, y, lab = rng.randint(-4000, 4000), rng.randint(-4000, 4000), rng.choice(elabels)
        ests.append(dict(x=x, y=y, label=lab, conf=confs[i], attr=rng.choice([0, 0, 0, 1, 2]), pts=0, uuid=False))
    # pair distances must be distinct unless exactly equal (ties are fine: the specification is nondeterministic there)
    frame = dict(ests=ests, gts=gts, crit=crit, pf=pf)
    return cfg, frame


def _scaled_cfg(cfg):
    """cfg in lattice units -> the dict layout pipeline.eval_dict expects (bounds in half units) with the unit scale applied by the caller"""
    return cfg


def run_one(arg):
    from perception_eval.config import PerceptionEvaluationConfig
    from perception_eval.evaluation.result.perception_frame_config import CriticalObjectFilterConfig, PerceptionPassFailConfig
    from perception_eval.manager import PerceptionEvaluationManager

    from ..build import EgoPose, frame_gt, obj3d, vid

    seed, k = arg
    rng = random.Random(seed * 48611 + k)
    cfg, frame = rand_case(rng)
    yaw_scene = rng.uniform(-math.pi, math.pi)
    out = []
    for rendering in ("base_link", "map"):
        ego = EgoPose(rng.uniform(-2000, 2000), rng.uniform(-2000, 2000), 0.0, rng.uniform(-math.pi, math.pi)) if rendering == "map" else None
        n = len(cfg["targets"])
        mf = cfg["mfilter"]
        d = {"evaluation_task": "detection", "target_labels": list(cfg["targets"]), "label_prefix": "autoware", "merge_similar_labels": False,
             "matching_label_policy": cfg["policy"], "min_point_numbers": list(mf["minPts"])}
        h = SCALE / 2.0
        if mf["xmax"]:
            d["max_x_position"] = [b * h for b in mf["xmax"]]
            d["max_y_position"] = [b * h for b in mf["ymax"]]
        else:
            d["max_distance"] = [b * h for b in mf["dmax"]]
            d["min_distance"] = mf["dmin"][0] * h
        if cfg["radius"]:
            d["max_matchable_radii"] = [a * SCALE / b for a, b in cfg["radius"]]
        if mf["conf"]:
            d["confidence_threshold"] = [c / 10000.0 for c in mf["conf"]]
        if mf["uuids"]:
            d["target_uuids"] = ["in%d" % i for i in range(1, MAXN + 1)]
        if mf["ignoreAttr"]:
            d["ignore_attributes"] = [pipeline.ATTR]
        d["center_distance_thresholds"] = [[t * h for t in cfg["cd"]]]
        d["plane_distance_thresholds"] = [[t * h for t in cfg["pd"]]] if cfg["pd"] else None
        d["iou_2d_thresholds"] = None
        d["iou_3d_thresholds"] = None
        import tempfile, shutil

        tmp = tempfile.mkdtemp(prefix="verif_pt_")
        try:
            ec = PerceptionEvaluationConfig([], "map" if rendering == "map" else "base_link", tmp, d)
            mgr = PerceptionEvaluationManager(ec)
        finally:
            shutil.rmtree(tmp, ignore_errors=True)
        cr = frame["crit"]
        kw = {}
        if cr["xmax"]:
            kw.update(max_x_position_list=[b * h for b in cr["xmax"]], max_y_position_list=[b * h for b in cr["ymax"]])
        else:
            kw.update(max_distance_list=[b * h for b in cr["dmax"]], min_distance_list=[b * h for b in cr["dmin"]])
        if cr["minPts"]:
            kw["min_point_numbers"] = list(cr["minPts"])
        if cr["ignoreAttr"]:
            kw["ignore_attributes"] = [pipeline.ATTR]
        crit = CriticalObjectFilterConfig(ec, list(cr["targets"]), **kw)
        pfc = PerceptionPassFailConfig(ec, list(frame["pf"]["targets"]), [t * h for t in frame["pf"]["thr"]] if frame["pf"]["thr"] else None)

        def render():
            fr = "map" if rendering == "map" else "base_link"
            E, G = [], []
            for i, e in enumerate(frame["ests"]):
                at, nm = pipeline.attr_kwargs(e["attr"], e["label"])
                o = obj3d((e["x"] * SCALE, e["y"] * SCALE, 0.0), yaw=yaw_scene, label=e["label"], score=e["conf"] / 10000.0, frame=fr, ego=ego, uuid="e%d" % (i + 1), vid=i + 1,
                          attributes=at, points=None)
                o.semantic_label.name = nm
                E.append(o)
            for j, g in enumerate(frame["gts"]):
                at, nm = pipeline.attr_kwargs(g["attr"], g["label"])
                o = obj3d((g["x"] * SCALE, g["y"] * SCALE, 0.0), yaw=yaw_scene, label=g["label"], score=1.0, frame=fr, ego=ego, uuid=("in%d" if g["uuid"] else "out%d") % (j + 1),
                          vid=j + 1, attributes=at, points=g["pts"])
                o.semantic_label.name = nm
                G.append(o)
            return E, G

        evs = [dict(ev="Begin", cfg=cfg, frame=frame)]
        try:
            E, G = render()
            res, fg = mgr._filter_objects(E, frame_gt(G, ego=ego))
            evs.append(dict(ev="Filter", g1=[vid(o) for o in fg.objects]))
            evs.append(dict(ev="Match", rsu=[[a, b] for a, b in pipeline.pairs(res)]))
            evs.append(dict(ev="Uuid"))
            E, G = render()
            fr_ = mgr.add_frame_result(1000, frame_gt(G, ego=ego), E, crit, pfc)
            pr = pipeline.project_frame_result(fr_)
            evs.append(dict(ev="Crit", rs2=[list(p) for p in pr["rs2"]], g2=[vid(o) for o in fr_.frame_ground_truth.objects]))
            evs.append(dict(ev="Classify", tp=[list(p) for p in pr["tp"]], fp=[list(p) for p in pr["fp"]], fn=pr["fn"], tn=pr["tn"]))
            rows = pr["aps"]
            f6 = lambda a: -1 if a == "inf" else int(round(a * 1e5))
            cd = [f6(a) for a in rows[0]]
            pd = [f6(a) for a in rows[1]] if cfg["pd"] else []
            evs.append(dict(ev="Metrics", cd=cd, pd=pd))
            info = dict(rendering=rendering, ne=len(frame["ests"]), ng=len(frame["gts"]), ntp=len(pr["tp"]), nfp=len(pr["fp"]), nfn=len(pr["fn"]), policy=cfg["policy"], final=pr)
        except Exception as ex:
            info = dict(rendering=rendering, raised=repr(ex))
        out.append((evs, info, dict(cfg=cfg, frame=frame)))
    return out


def run(ctx, n=None, want=lambda rendering, clause: True):
    n = n or (60 if ctx.quick else 1200)
    outs = pmap(run_one, [(ctx.seed, k) for k in range(n)], chunks=1)
    evs, info = [], {}
    tid = 0
    for k, group in enumerate(outs):
        finals = []
        for e_, inf, case in group:
            tid += 1
            info[tid] = dict(inf, case=case, scene=k)
            info[tid].pop("final", None)
            finals.append(inf.get("final"))
            if inf.get("raised"):
                if want(inf["rendering"], "raised"):
                    ctx.violation("pipeline-trace:raised", "scene %d (%s): %s" % (k, inf["rendering"], inf["raised"]), info[tid])
                continue
            for ev in e_:
                ev = dict(ev)
                ev["tid"] = tid
                evs.append(ev)
    T.make_model("Trace_Pipeline", "Trace_Pipeline_gen", dict(MaxN=str(MAXN), LcmN=str(math.lcm(*range(1, MAXN + 1)))), init="TraceInit", next="TraceNext",
                 invariants=["TResultsPartition", "TGTConservation", "TTPJustified", "TNothingOutside", "TApWithinUnit"], postcondition="Consumed", model_values=())
    rej = trace.validate(ctx, "Trace_Pipeline_gen", evs, tag="Trace_Pipeline_" + ctx.pid, cfg=os.path.join(T.GEN, "Trace_Pipeline_gen.cfg"), spec_dir=T.GEN, heap="8g")
    ctx.traces += tid
    ctx.evaluations += tid
    ctx.nontrivial_count += sum(1 for i in info.values() if i.get("ne", 0) >= 2 and i.get("ng", 0) >= 2)
    for t_, line, clause in rej:
        i = info[t_]
        if want(i["rendering"], clause):
            ctx.violation("pipeline-trace:%s:%s" % ("map" if i["rendering"] == "map" else "ego", clause), "scene %d (%s): %s" % (i["scene"], i["rendering"], clause), i)
    if info:
        i = info[max(1, tid // 2)]
        ctx.sample({k_: v for k_, v in i.items() if k_ != "case"} | {"n_estimates": i.get("ne"), "n_ground_truths": i.get("ng")})
    return tid
