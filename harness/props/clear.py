"""C05 — Clear.tla bound to CLEAR / TrackingMetricsScore (engines M, R, T)."""
from __future__ import annotations

import json
import math
import os
import random
import re

from .. import tlc as T
from ..core import Ctx, pmap
from ..tlaval import load_dump

INV = ["TotalsAgree", "Accounting", "TpByLevelSums", "SwitchDefinition", "RenamingInvariance", "PerfectTracker", "NewIdCostsOne",
       "ExchangeCostsTwo", "MotaRange"]


def cfg_tla(policy, thr, maximize):
    return '[label |-> "car", policy |-> "%s", thr |-> %d, maximize |-> %s]' % (policy, thr, "TRUE" if maximize else "FALSE")


def slices(tier):
    big = tier == "thorough"
    base = dict(EstIds="{1,2}", GtIds="{1,2}", MaxObjs="2", Targets='<<"car","pedestrian">>', CheckRenaming="TRUE", GSet="{0,3}")
    sl = {}
    # distance modes: levels 0,1 inside thr 2, level 3 beyond
    sl["dist_default"] = dict(base, Cfgs="{%s}" % cfg_tla("DEFAULT", 2, False), Levels="{0,1,3}" if big else "{1,3}",
                              ELabels='{"car","unknown"}' if big else '{"car"}', GLabels='{"car","pedestrian"}', MaxFrames="2")
    sl["dist_allow_unknown"] = dict(base, Cfgs="{%s}" % cfg_tla("ALLOW_UNKNOWN", 2, False), Levels="{1,3}", ELabels='{"car","unknown"}',
                                    GLabels='{"car"}', MaxFrames="2")
    # IoU modes: level = intersection area I of 2x2 boxes (IoU = I/(8-I)), thr level 1 <=> IoU threshold 0.2
    sl["iou_default"] = dict(base, Cfgs="{%s}" % cfg_tla("DEFAULT", 1, True), Levels="{0,2,4}" if big else "{0,2}", ELabels='{"car"}',
                             GLabels='{"car","pedestrian"}' if big else '{"car"}', MaxFrames="2")
    # three frames after the initial one on a smaller alphabet
    sl["dist_3frames"] = dict(base, Cfgs="{%s}" % cfg_tla("DEFAULT", 2, False), Levels="{1,3}", ELabels='{"car"}', GLabels='{"car"}',
                              MaxFrames="3", GtIds="{1,2}" if big else "{1}", CheckRenaming="TRUE" if big else "FALSE")
    # FP-labelled ground truth in the bucket's threshold lookup (ignored) and any-policy
    sl["dist_allow_any"] = dict(base, Cfgs="{%s}" % cfg_tla("ALLOW_ANY", 2, False), Levels="{1,3}", ELabels='{"car"}',
                                GLabels='{"car","pedestrian"}', MaxFrames="2")
    # a threshold of exactly 0 is a legal threshold (IoU: any overlap is a TP; distance: nothing is)
    sl["iou_zero_threshold"] = dict(base, Cfgs="{%s, %s}" % (cfg_tla("DEFAULT", 0, True), cfg_tla("DEFAULT", 0, False)), Levels="{0,2}", ELabels='{"car"}',
                                    GLabels='{"car"}', MaxFrames="2", GtIds="{1,2}" if big else "{1}", CheckRenaming="FALSE")
    return sl


def level_value(lv, maximize):
    return (lv / (8.0 - lv)) if maximize else float(lv)


# consistent namings of the abstract track ids: prefixed, bare decimal, and unary strings of different lengths ("1", "11", ...) shared by both
# sides (so that concatenations of an estimate name and a ground-truth name can coincide for different pairs)
NAMINGS = [(lambda k: "est-%d" % k, lambda k: "gt-%d" % k), (lambda k: str(k), lambda k: str(k)), (lambda k: "1" * k, lambda k: "1" * k),
           (lambda k: "ab"[: k] if k <= 2 else "ab" + "x" * k, lambda k: "bc"[2 - k:] if k <= 2 else "q" * k)]


def build_frame(frame, maximize, rng, naming=0):
    """real results for one abstract frame"""
    from perception_eval.evaluation.result.object_result import DynamicObjectWithPerceptionResult

    from ..build import POLICIES, obj3d

    en, gn = NAMINGS[naming % len(NAMINGS)]
    out = []
    for r in frame:
        base = (20.0 * r["e"], 7.0 * r["g"], 0.0)
        est = obj3d(base, label=r["el"], score=0.5, uuid=en(r["e"]), vid=r["e"])
        if r["g"] == 0:
            gt = None
        else:
            lv = r["sc"]
            dx = float(lv) if not maximize else (2.0 - lv / 2.0)   # I = 2*(2-dx)
            gt = obj3d((base[0] + dx, base[1], 0.0), label=r["gl"], score=1.0, uuid=gn(r["g"]), vid=r["g"])
        out.append((est, gt))
    rng.shuffle(out)
    return out


def replay_hist(arg):
    from perception_eval.evaluation.metrics.tracking.clear import CLEAR
    from perception_eval.evaluation.result.object_result import DynamicObjectWithPerceptionResult

    from ..build import AW, MODES, POLICIES

    hist, cfg, out, modes, seed = arg
    mism = []
    n = 0
    maximize = cfg["maximize"]
    for mode in modes:
        n += 1
        rng = random.Random(seed)
        frames = []
        for f in hist:
            frames.append([DynamicObjectWithPerceptionResult(e, g, POLICIES[cfg["policy"]]) for e, g in build_frame(f, maximize, rng, naming=seed)])
        thr = 0.0 if cfg["thr"] == 0 else (0.2 if maximize else float(cfg["thr"]))
        G = out["g"]
        rep = {"hist": [sorted(f, key=lambda r: r["e"]) for f in hist], "cfg": cfg, "mode": mode, "spec": out}
        try:
            # (label and threshold sequences of either kind: a list, or the tuple that unpacking a configuration yields)
            kind = (list, tuple)[seed % 2]
            cl = CLEAR(object_results=frames, num_ground_truth=G, target_labels=kind([AW["car"]]), matching_mode=MODES[mode],
                       matching_threshold_list=kind([thr]))
        except Exception as ex:
            mism.append(("raised", "CLEAR raised %r" % (ex,), rep))
            continue
        res = cl.results
        rep["impl"] = {k: (v if v != float("inf") else "inf") for k, v in res.items()}
        if res["tp"] != out["tp"] or res["fp"] != out["fp"] or res["id_switch"] != out["idsw"] or res["predict_num"] != out["n"]:
            mism.append(("counts", "tp/fp/idsw/n impl %s/%s/%s/%s spec %s/%s/%s/%s" % (
                res["tp"], res["fp"], res["id_switch"], res["predict_num"], out["tp"], out["fp"], out["idsw"], out["n"]), rep))
            continue
        exp_sum = sum(level_value(lv, maximize) * cnt for lv, cnt in (out["by"].items() if isinstance(out["by"], dict) else []))
        if abs(res["tp_matching_score"] - exp_sum) > 1e-9:
            mism.append(("tp_matching_score", "impl %r spec %r" % (res["tp_matching_score"], exp_sum), rep))
        m = out["mota"]
        if tuple(m) == (0, 0):
            if res["MOTA"] != float("inf"):
                mism.append(("mota", "impl %r spec inf" % res["MOTA"], rep))
        elif abs(res["MOTA"] - m[0] / m[1]) > 1e-9:
            mism.append(("mota", "impl %r spec %s/%s" % (res["MOTA"], m[0], m[1]), rep))
        if out["tp"] == 0:
            if res["MOTP"] != float("inf"):
                mism.append(("motp", "impl %r spec inf" % res["MOTP"], rep))
        elif abs(res["MOTP"] - exp_sum / out["tp"]) > 1e-9:
            mism.append(("motp", "impl %r spec %r" % (res["MOTP"], exp_sum / out["tp"]), rep))
    return n, mism


# ------------------------------------------------------------------ traces

def _rand_history(rng: random.Random):
    """a random tracking history of real results: list of frames, each list of (est, gt|None)"""
    from ..build import obj3d

    nfr = rng.choice([1, 2, 3, 5, 5, 10, 10, 25, 60])
    en, gn = NAMINGS[rng.randrange(len(NAMINGS))]
    ntracks = rng.randint(1, 12)
    mode = rng.choice(["center", "plane", "iou2d", "iou3d"])
    policy = rng.choice(["DEFAULT", "ALLOW_UNKNOWN", "ALLOW_ANY"])
    thr = {"center": rng.choice([0.5, 1.0, 2.0]), "plane": rng.choice([1.0, 2.0]), "iou2d": rng.choice([0.1, 0.3, 0.5]), "iou3d": rng.choice([0.1, 0.3])}[mode]
    # ground-truth tracks move on lines; estimate ids follow a permutation that is perturbed over time
    gts = {k: (rng.uniform(-40, 40), rng.uniform(-40, 40), rng.uniform(-0.5, 0.5), rng.uniform(-1, 1), rng.uniform(-1, 1)) for k in range(1, ntracks + 1)}
    glabel = {k: ("car" if rng.random() < 0.8 else rng.choice(["pedestrian", "false_positive"])) for k in gts}
    assign = {k: k for k in gts}  # gt track -> estimate id
    next_id = ntracks + 1
    frames = []
    for t in range(nfr + 1):
        # events: switches / fragmentations / swaps
        if t > 0:
            u = rng.random()
            ks = list(gts)
            if u < 0.15 and ks:
                assign[rng.choice(ks)] = next_id
                next_id += 1
            elif u < 0.25 and len(ks) >= 2:
                a, b = rng.sample(ks, 2)
                assign[a], assign[b] = assign[b], assign[a]
        fr = []
        used_e = set()
        for k, (x, y, z, vx, vy) in gts.items():
            if rng.random() < 0.15:
                continue  # ground truth not matched in this frame
            gx, gy = x + vx * t, y + vy * t
            e = assign[k]
            if e in used_e:
                continue
            used_e.add(e)
            off = rng.choice([0.0, 0.1, 0.3, 0.7, 1.4, 2.6, 4.0])
            ang = rng.uniform(0, 2 * math.pi)
            el = "car" if rng.random() < 0.85 else "unknown"
            yaw = rng.uniform(0, math.pi)
            est = obj3d((gx + off * math.cos(ang), gy + off * math.sin(ang), z), yaw=yaw, size=(2.0, 4.5, 1.6), label=el, score=rng.random(),
                        uuid=en(e), vid=e)
            gt = obj3d((gx, gy, z), yaw=yaw + rng.choice([0, 0.05, 0.3]), size=(2.0 * rng.uniform(0.9, 1.1), 4.5 * rng.uniform(0.9, 1.1), 1.6),
                       label=glabel[k], score=1.0, uuid=gn(k), vid=k)
            fr.append((est, gt))
        for _ in range(rng.choice([0, 0, 1, 2])):  # unmatched estimates
            e = next_id
            next_id += 1
            est = obj3d((rng.uniform(-40, 40), rng.uniform(-40, 40), 0.0), label="car", score=rng.random(), uuid=en(e), vid=e)
            fr.append((est, None))
        rng.shuffle(fr)
        frames.append(fr)
    return frames, dict(mode=mode, policy=policy, thr=thr)


def _bucket(results, label, targets):
    """divide_objects semantic for one label (harness-side selection of the bucket contents; the library's own
    divide_objects is exercised by the manager-level drivers of C13)"""
    out = []
    for r in results:
        el = r.estimated_object.semantic_label.label.value
        if el == label:
            out.append(r)
        elif el not in targets and r.ground_truth_object is not None and r.ground_truth_object.semantic_label.label.value == label:
            out.append(r)
    return out


def _one_history(arg):
    from perception_eval.evaluation.metrics.tracking.clear import CLEAR
    from perception_eval.evaluation.metrics.tracking.tracking_metrics_score import TrackingMetricsScore
    from perception_eval.evaluation.result.object_result import DynamicObjectWithPerceptionResult

    from ..build import AW, MODES, POLICIES

    seed, k = arg
    rng = random.Random(seed * 104729 + k)
    while True:
        frames, prm = _rand_history(rng)
        mode = MODES[prm["mode"]]
        maximize = prm["mode"] in ("iou2d", "iou3d")
        targets = ["car", "pedestrian"]
        real = [[DynamicObjectWithPerceptionResult(e, g, POLICIES[prm["policy"]]) for e, g in fr] for fr in frames]
        ok = True
        evs_all = []
        clears_ev = []
        dicts = {}
        gdict = {}
        # per-label thresholds (the second label's differs from the first's in two cases out of three)
        f2 = rng.choice([1.0, 0.5, 2.0])
        thr_by = {"car": prm["thr"], "pedestrian": min(prm["thr"] * f2, 0.95) if maximize else prm["thr"] * f2}
        pending = []
        for label in targets:
            bl = [_bucket(fr, label, targets) for fr in real]
            G = sum(1 for fr in bl[1:] for r in fr if r.ground_truth_object is not None and r.ground_truth_object.semantic_label.label.value == label)
            G += rng.choice([0, 0, 1, 4])
            if rng.random() < 0.05:
                G = 0
            evs = [dict(tid=0, ev="Begin", label=label, policy=prm["policy"], thr4=int(round(thr_by[label] * 1e4)), maximize=1 if maximize else 0, g=G)]
            for fr in bl:
                res = []
                for r in fr:
                    if r.ground_truth_object is None:
                        res.append(dict(e=r.estimated_object._verif_id, el=r.estimated_object.semantic_label.label.value, g=0, gl="none", s4=0))
                    else:
                        v = r.get_matching(mode).value
                        if any(abs(v - t_) < 1e-3 for t_ in thr_by.values()):
                            ok = False
                        res.append(dict(e=r.estimated_object._verif_id, el=r.estimated_object.semantic_label.label.value,
                                        g=r.ground_truth_object._verif_id, gl=r.ground_truth_object.semantic_label.label.value,
                                        s4=int(round(min(v, 1000.0) * 1e4))))
                evs.append(dict(tid=0, ev="Frame", res=res))
            pending.append((label, bl, G, evs))
            dicts[AW[label]] = bl
            gdict[AW[label]] = G
        if not ok:
            continue
        ts = TrackingMetricsScore(dicts, gdict, [AW[t] for t in targets], mode, [thr_by[t] for t in targets])

        def end_event(r_):
            return dict(tid=0, ev="End", tp=int(r_["tp"]), fp=int(r_["fp"]), idsw=int(r_["id_switch"]), n=int(r_["predict_num"]),
                        sum4=int(round(r_["tp_matching_score"] * 1e4)),
                        mota6=-1 if r_["MOTA"] == float("inf") else int(round(r_["MOTA"] * 1e6)),
                        motp4=-1 if r_["MOTP"] == float("inf") else int(round(r_["MOTP"] * 1e4)))

        for i, (label, bl, G, evs) in enumerate(pending):
            # the bucket scored directly by CLEAR, and the same bucket as TrackingMetricsScore scored it (its own per-label CLEAR)
            kind = (list, tuple)[i % 2]
            cl = CLEAR(object_results=bl, num_ground_truth=G, target_labels=kind([AW[label]]), matching_mode=mode, matching_threshold_list=kind([thr_by[label]]))
            for via, r_ in (("CLEAR", cl.results), ("TrackingMetricsScore", ts.clears[i].results)):
                info = dict(label=label, frames=len(bl) - 1, g=G, via=via, thresholds=thr_by, **prm, results={a: (b if b != float("inf") else "inf") for a, b in r_.items()})
                evs_all.append(([dict(e_) for e_ in evs] + [end_event(r_)], info))
        mota, motp, idsw = ts._sum_clear()
        sum_ev = dict(tid=0, ev="Sum", clears=[dict(g=c.num_ground_truth, tp=int(c.tp), idsw=int(c.id_switch),
                                                    mota6=-1 if c.mota == float("inf") else int(round(c.mota * 1e6)),
                                                    motp4=-1 if c.motp == float("inf") else int(round(c.motp * 1e4))) for c in ts.clears],
                      mota6=-1 if mota == float("inf") else int(round(mota * 1e6)), motp4=-1 if motp == float("inf") else int(round(motp * 1e4)),
                      idsw=int(idsw))
        evs_all.append(([sum_ev], dict(sum=True, mota=mota if mota != float("inf") else "inf", idsw=idsw)))
        return evs_all


def gen_traces(seed, n, path):
    meta = {}
    tid = 0
    outs = pmap(_one_history, [(seed, k) for k in range(n)], chunks=2)
    with open(path, "w") as f:
        for groups in outs:
            for evs, info in groups:
                tid += 1
                meta[tid] = info
                for ev in evs:
                    ev["tid"] = tid
                    f.write(json.dumps(ev) + "\n")
    return meta


def run(ctx: Ctx):
    nhist = 0
    for name, consts in slices(ctx.tier).items():
        res = T.run_model("MC_Clear", "MCCL_%s" % name, consts, invariants=INV, model_values=(),
                          tlc_kwargs=dict(dump=True, allow_violation=False, timeout=3000))
        ctx.add_tlc(res, "MC_Clear/" + name, must_take=["DoFrame", "DoScore"])
        ctx.log("tlc %s: %d states %.1fs" % (name, res.distinct, res.wall))
        states, _ = load_dump(res.dump_path, must_contain="out = [")
        os.remove(res.dump_path)
        maximize = "TRUE" in consts["Cfgs"].split("maximize")[1]
        modes_all = ["iou2d", "iou3d"] if maximize else ["center", "plane"]
        items = []
        for i, st in enumerate(states):
            hist = [[dict(r) for r in f] for f in st["hist"]]
            out = dict(st["out"])
            # a bag whose domain is 1..n is printed by TLC as a sequence
            by = out["by"]
            out["by"] = dict(by) if isinstance(by, dict) else {i + 1: v for i, v in enumerate(by)}
            modes_st = ["iou2d", "iou3d"] if dict(st["cfg"])["maximize"] else ["center", "plane"]
            modes = modes_st if not ctx.quick else [modes_st[i % 2]]
            items.append((hist, dict(st["cfg"]), out, modes, ctx.seed + i))
        outs = pmap(replay_hist, items)
        for (hist, cfg, out, _m, _s), (n, mism) in zip(items, outs):
            ctx.traces += n
            ctx.evaluations += n
            if out["idsw"] > 0 or (out["tp"] > 0 and out["fp"] > 0):
                ctx.nontriv(json.dumps([hist, out["g"]], sort_keys=True, default=list))
            for clause, msg, rep in mism:
                ctx.violation("replay:" + clause, msg, rep)
        nhist += len(items)
        ctx.log("replayed %s: %d histories" % (name, len(items)))
        if items:
            hist, cfg, out, _m, _s = items[len(items) * 3 // 5]
            ctx.sample({"slice": name, "history(frames of results)": hist, "cfg": cfg, "spec_out": out}, limit=3)
    # engine M only: deeper histories by simulation
    sim = dict(slices("thorough")["dist_default"], MaxFrames="6", CheckRenaming="FALSE")
    res = T.run_model("MC_Clear", "MCCL_sim", sim, invariants=[i for i in INV if i != "RenamingInvariance"], model_values=(),
                      tlc_kwargs=dict(simulate="num=%d" % (40 if ctx.quick else 1500), depth=8, seed=ctx.seed, workers=8, allow_violation=False, timeout=1200))
    ctx.add_tlc(res, "MC_Clear simulate depth 8")
    ctx.log("simulation done %.1fs" % res.wall)
    # engine T
    ntr = 80 if ctx.quick else 1200
    path = os.path.join(ctx.out, "clear_traces.ndjson")
    meta = gen_traces(ctx.seed, ntr, path)
    ctx.log("traces generated")
    tres = T.run_tlc("Trace_Clear", workers=1, env={"TRACE_FILE": path}, tag="Trace_Clear_" + ctx.pid, coverage=False, heap="6g", allow_violation=False)
    ctx.states += tres.distinct
    ctx.transitions += tres.generated
    rejected = [(int(m.group(1)), m.group(3)) for m in re.finditer(r'<<"REJECT", (\d+), (\d+), "([^"]+)">>', tres.output)]
    ctx.traces += len(meta)
    ctx.evaluations += len(meta)
    for tid, info in meta.items():
        if info.get("sum") or info.get("frames", 0) >= 2:
            ctx.nontriv(("trace", tid))
    for tid, clause in rejected:
        if clause.startswith("driver:"):
            raise T.TlcError("trace driver produced an ill-formed history: %s (tid %d)" % (clause, tid))
        ctx.violation("trace:" + clause, "history %d rejected by Trace_Clear: %s" % (tid, clause), meta.get(tid))
    k = sorted(meta)[len(meta) // 2]
    ctx.sample({"trace": k, **meta[k]})
    # the same specification validates the manager in tracking mode: per-frame CLEAR([previous frame, current frame]) and the scene CLEAR
    from . import tracking_manager

    ctx.extra["manager_tracking_traces"] = tracking_manager.run(ctx, renderings=("base_link",), n=20 if ctx.quick else 200)
    ctx.rule = (
        "TLC enumerates every history of frames (sets of results over estimate ids {1,2}, ground-truth ids {1,2}, labels, score levels) up to "
        "MaxFrames and checks accounting, switch definition, renaming invariance under all id permutations, MOTA range and the named scenarios; "
        "every scored history is replayed through the real CLEAR class (results shuffled inside frames; distance and IoU modes) and all of "
        "tp/fp/id_switch/predict_num/tp_matching_score/MOTA/MOTP compared; deeper histories by TLC simulation; random histories (<= 60 frames x "
        "<= 14 results, switches, fragmentations, swaps, two label buckets, TrackingMetricsScore totals) validated as traces; random moving "
        "scenes through PerceptionEvaluationManager in tracking mode (MetricsScore.tracking_scores per frame and for the scene). Non-trivial = history "
        "with an ID switch or with both TPs and FPs; trace with >= 2 frames; distinct by history."
    )
    ctx.exhaustive = False
    ctx.assumptions += [
        "estimate ids and ground-truth ids are unique within a frame (one-to-one matching of uniquely identified tracks)",
        "the carry-over rule (a result whose pairing equals a TP pairing of the previous frame is a TP credited with the previous score) "
        "is modelled as built",
        "trace scores in 1e-4 fixed point; histories with a score within 1e-3 of the threshold are skipped",
    ]
