"""C04 (and the AP half of C08) — Ap.tla bound to Ap / Map (engines M, R, T)."""
from __future__ import annotations

import json
import math
import os
import random
import re

from .. import tlc as T
from ..core import Ctx, pmap
from ..tlaval import load_dump

W = 2
MODE_THR = {  # threshold, TP geometry is "same centre", FP geometry "5 m away"
    "center": 1.0,
    "plane": 3.0,
    "iou2d": 0.5,
    "iou3d": 0.5,
}
MODE_NAMES = ["center", "plane", "iou2d", "iou3d"]


def build_results(r, mode, rng):
    """real object results for ranking r (entries 0..W / -1 FP / -2 IG), strictly descending confidence"""
    from perception_eval.evaluation.result.object_result import DynamicObjectWithPerceptionResult

    from ..build import obj3d

    out = []
    for k, x in enumerate(r):
        conf = 0.99 - 0.003 * k
        base = (10.0 * k, 3.0, 0.0)
        if x >= 0:
            # any base heading, on either side of the +-pi cut; heading difference (W - x) * pi / W to the left or to the right
            phi = 0.0 if mode == "plane" else math.atan2(math.sin(math.pi / 4 + 2.39996 * k), math.cos(math.pi / 4 + 2.39996 * k))
            sgn = 1.0 if k % 2 == 0 else -1.0
            est = obj3d(base, yaw=phi + sgn * (W - x) * math.pi / W, label="car", score=conf, vid=k + 1)
            gt = obj3d(base, yaw=phi, label="car", score=1.0, vid=k + 1)
        elif x == -1:
            est = obj3d(base, label="car", score=conf, vid=k + 1)
            variant = (k + len(r)) % 3
            if variant == 0:
                gt = None
            elif variant == 1:
                gt = obj3d((base[0] + 8.0, base[1], 0.0), label="car", score=1.0, vid=k + 1)  # beyond every threshold
            else:
                # label mismatch inside the threshold is a false positive for the estimate's bucket only if the threshold
                # label is the bucket's: estimate of a non-target label paired with a car ground truth
                est = obj3d(base, label="bicycle", score=conf, vid=k + 1)
                gt = obj3d(base, label="car", score=1.0, vid=k + 1)
        else:
            est = obj3d(base, label="car", score=conf, vid=k + 1)
            gt = obj3d(base, label="pedestrian", score=1.0, vid=k + 1)  # threshold label is not the bucket's -> ignored
        out.append(DynamicObjectWithPerceptionResult(est, gt))
    rng.shuffle(out)
    return out


def replay_ap(arg):
    from perception_eval.evaluation.metrics.detection.ap import Ap
    from perception_eval.evaluation.metrics.detection.map import Map
    from perception_eval.evaluation.metrics.detection.tp_metrics import TPMetricsAp, TPMetricsAph

    from ..build import AW, MODES

    r, g, out, modes, seed = arg
    mism = []
    n = 0
    for mode in modes:
        n += 1
        rng = random.Random(seed)
        results = build_results(r, mode, rng)
        thr = MODE_THR[mode]
        rep = {"ranking": list(r), "g": g, "mode": mode, "spec": out}
        try:
            ap = Ap(TPMetricsAp(), [list(results)], g, [AW["car"]], MODES[mode], [thr])
            aph = Ap(TPMetricsAph(), [list(results)], g, [AW["car"]], MODES[mode], [thr])
            mp = Map({AW["car"]: list(results)}, {AW["car"]: g}, [AW["car"]], MODES[mode], [thr])
        except Exception as ex:
            mism.append(("raised", "Ap raised %r" % (ex,), rep))
            continue
        unit = out["unit"]

        def same(impl, spec):
            if spec == -1:
                return impl == float("inf")
            if unit == 0:
                return abs(impl) < 1e-12
            return abs(impl - spec / unit) < 1e-9

        if len(r) > 0:
            # the specification's tp lists are scaled by W
            if any(abs(a * W - b) > 1e-9 for a, b in zip(ap.tp_list, out["tp"])) or len(ap.tp_list) != len(out["tp"]):
                mism.append(("tp_list", "tp_list %s vs spec %s/W" % (ap.tp_list, list(out["tp"])), rep))
            if any(abs(a - b) > 1e-9 for a, b in zip(ap.fp_list, out["fp"])) or len(ap.fp_list) != len(out["fp"]):
                mism.append(("fp_list", "fp_list %s vs spec %s" % (ap.fp_list, list(out["fp"])), rep))
            if any(abs(a * W - b) > 1e-9 for a, b in zip(aph.tp_list, out["tph"])) or len(aph.tp_list) != len(out["tph"]):
                mism.append(("tph_list", "APH tp_list %s vs spec %s/W" % (aph.tp_list, list(out["tph"])), rep))
        if not same(ap.ap, out["ap"]):
            mism.append(("ap-area", "AP %r vs spec %s/%s" % (ap.ap, out["ap"], unit), rep))
        if not same(aph.ap, out["aph"]):
            mism.append(("aph-area", "APH %r vs spec %s/%s" % (aph.ap, out["aph"], unit), rep))
        if not same(mp.map, out["ap"]) or not same(mp.maph, out["aph"]):
            mism.append(("map-single-label", "Map %r/%r vs spec" % (mp.map, mp.maph), rep))
    return n, mism


# ---------------------------------------------------------------- traces

def _rand_thr(rng, mode):
    return {"center": rng.choice([0.5, 1.0, 2.0, 0.0]), "plane": rng.choice([1.0, 2.0, 3.0, 0.0]), "iou2d": rng.choice([0.1, 0.3, 0.5, 0.7, 0.0]),
            "iou3d": rng.choice([0.1, 0.3, 0.5, 0.0])}[mode]


def _rand_bucket(rng: random.Random):
    """random real results for bucket label 'car' -> (results, g, params)"""
    from perception_eval.evaluation.result.object_result import DynamicObjectWithPerceptionResult

    from ..build import POLICIES, obj3d

    n = rng.choice([0, 1, 2, 3, 5, 10, 30, 80, 150, 300]) if rng.random() < 0.8 else rng.randint(0, 300)
    mode = rng.choice(MODE_NAMES)
    policy = rng.choice(["DEFAULT", "ALLOW_UNKNOWN", "ALLOW_ANY"])
    # (a threshold of exactly 0 is legal: no distance beats it, any overlap does)
    thr = _rand_thr(rng, mode)
    confs = rng.sample(range(1, 100000), n)
    tilted = rng.random() < 0.3
    if n >= 2 and rng.random() < 0.3:     # the extreme confidences: exactly 1 for the best, exactly 0 for the worst result
        confs[confs.index(max(confs))] = 100000
        confs[confs.index(min(confs))] = 0
    results = []
    ngt_car = 0
    for k in range(n):
        base = (rng.uniform(-50, 50), rng.uniform(-50, 50), rng.uniform(-1, 1))
        u = rng.random()
        el = "car" if u < 0.8 else rng.choice(["unknown", "bus"])  # non-target estimate labels fall into the GT's bucket
        est = obj3d(base, yaw=rng.uniform(-math.pi, math.pi), size=(rng.uniform(1.5, 2.5), rng.uniform(3.5, 5.5), rng.uniform(1.2, 2.0)), label=el,
                    score=confs[k] / 100000.0, vid=k + 1)
        v = rng.random()
        if v < 0.15 and el == "car":
            gt = None
        else:
            gl = "car" if (v < 0.85 or el != "car") else rng.choice(["pedestrian", "false_positive"])
            off = rng.choice([0.05, 0.3, 0.8, 1.5, 3.0, 6.0])
            ang = rng.uniform(0, 2 * math.pi)
            gpos = (base[0] + off * math.cos(ang), base[1] + off * math.sin(ang), base[2] + rng.uniform(-0.2, 0.2))
            gt = obj3d(gpos, yaw=est.state.orientation.yaw_pitch_roll[0] + rng.choice([0, 0, 0.1, -0.1, 0.5, 1.5, 3.0]) * rng.choice([1, 1, 0]),
                       size=tuple(s * rng.uniform(0.8, 1.2) for s in est.state.size), label=gl, score=1.0, vid=k + 1)
            if gl == "car":
                ngt_car += 1
        if tilted:
            # boxes reported on a slope / banked road: roll and pitch differ between the two objects, the heading (yaw) is what it was
            from pyquaternion import Quaternion as _Q

            for o_ in (est, gt):
                if o_ is not None:
                    o_.state.orientation = o_.state.orientation * _Q(axis=[0, 1, 0], radians=rng.uniform(-0.12, 0.12)) * _Q(axis=[1, 0, 0], radians=rng.uniform(-0.12, 0.12))
        results.append(DynamicObjectWithPerceptionResult(est, gt, POLICIES[policy]))
    g = ngt_car + rng.choice([0, 0, 1, 3])
    if rng.random() < 0.05:
        g = 0
    return results, g, dict(mode=mode, policy=policy, thr=thr)


def _fx(v, scale):
    return int(round(v * scale))


def ap_event(tid, results, g, prm, *, with_lists=True):
    """run the library on one bucket and return (event, skip?)"""
    from perception_eval.evaluation.metrics.detection.ap import Ap
    from perception_eval.evaluation.metrics.detection.tp_metrics import TPMetricsAp, TPMetricsAph

    from ..build import AW, MODES

    mode = prm["mode"]
    ranked = sorted(results, key=lambda x: -x.estimated_object.semantic_score)
    s6, hw3, el, gl, ya4, yb4 = [], [], [], [], [], []
    aphm = TPMetricsAph()
    for rr in ranked:
        m = rr.get_matching(MODES[mode])
        v = m.value if rr.ground_truth_object is not None else (0.0 if mode in ("iou2d", "iou3d") else 1e3)
        if rr.ground_truth_object is not None and abs(v - prm["thr"]) < 1e-5:
            return None
        s6.append(_fx(min(v, 2000.0), 1e6))
        hw3.append(_fx(aphm.get_value(rr), 1e3))
        el.append(rr.estimated_object.semantic_label.label.value)
        gl.append(rr.ground_truth_object.semantic_label.label.value if rr.ground_truth_object is not None else "none")
        ya4.append(int(round(rr.estimated_object.state.orientation.yaw_pitch_roll[0] * 1e4)) % 62832)
        yb4.append(int(round(rr.ground_truth_object.state.orientation.yaw_pitch_roll[0] * 1e4)) % 62832 if rr.ground_truth_object is not None else 0)
    # the bucket arrives as per-frame lists (1-3 frames, results dealt round-robin): the ranking is over the whole bucket
    nfr = 1 + len(results) % 3
    nested = [list(results[i::nfr]) for i in range(nfr)]
    ap = Ap(TPMetricsAp(), [list(x) for x in nested], g, [AW["car"]], MODES[mode], [prm["thr"]])
    aph = Ap(TPMetricsAph(), [list(x) for x in nested], g, [AW["car"]], MODES[mode], [prm["thr"]])
    n = len(ranked)
    tp = [int(round(v)) for v in ap.tp_list] if n else []
    fp = [int(round(v)) for v in ap.fp_list] if n else []
    tph3 = [_fx(v, 1e3) for v in aph.tp_list] if n else []
    evs = [dict(tid=tid, ev="ApBegin", n=n, g=g, label="car", policy=prm["policy"], maximize=1 if mode in ("iou2d", "iou3d") else 0,
                thr6=_fx(prm["thr"], 1e6))]
    for i in range(n):
        evs.append(dict(tid=tid, ev="Entry", el=el[i], gl=gl[i], s6=s6[i], hw3=hw3[i], ya4=ya4[i], yb4=yb4[i], tp=tp[i], fp=fp[i], tph3=tph3[i]))
    evs.append(dict(tid=tid, ev="ApEnd", ap6=-1 if ap.ap == float("inf") else _fx(ap.ap, 1e6),
                    aph6=-1 if aph.ap == float("inf") else _fx(aph.ap, 1e6)))
    return evs


def _one_trace(arg):
    """events of one trace id group (an Ap event, every 5th followed by a Map event)"""
    from perception_eval.evaluation.metrics.detection.ap import Ap
    from perception_eval.evaluation.metrics.detection.map import Map
    from perception_eval.evaluation.metrics.detection.tp_metrics import TPMetricsAp

    from ..build import AW, MODES

    seed, k = arg
    rng = random.Random(seed * 7919 + k)
    while True:
        results, g, prm = _rand_bucket(rng)
        ev = ap_event(0, results, g, prm)
        if ev is not None:
            break
    evs = [(ev, dict(n=ev[0]["n"], g=g, **prm, ap6=ev[-1]["ap6"], aph6=ev[-1]["aph6"]))]
    if k % 5 == 0:
        labels = [AW["car"], AW["pedestrian"], AW["bicycle"]][: rng.choice([2, 3])]
        d, gd = {}, {}
        for lb in labels:
            if rng.random() < 0.25:
                d[lb], gd[lb] = [], rng.choice([0, 2])
            else:
                rs, gg, _ = _rand_bucket(rng)
                d[lb], gd[lb] = rs[:40], gg
        # every label has its own threshold, and the dictionaries need not be keyed in the order of the label list
        thrs = [prm["thr"]] * len(labels) if rng.random() < 0.3 else [_rand_thr(rng, prm["mode"]) for _ in labels]
        if rng.random() < 0.5:
            order = rng.sample(labels, len(labels))
            d, gd = {lb: d[lb] for lb in order}, {lb: gd[lb] for lb in reversed(order)}
        mp = Map(d, gd, labels, MODES[prm["mode"]], thrs)
        fx = lambda a: -1 if a.ap == float("inf") else _fx(a.ap, 1e6)
        single = [fx(Ap(TPMetricsAp(), [list(d[lb])], gd[lb], [lb], MODES[prm["mode"]], [th])) for lb, th in zip(labels, thrs)]
        ev2 = dict(tid=0, ev="Map", aps=[fx(a) for a in mp.aps], single=single,
                   map6=-1 if mp.map == float("inf") else _fx(mp.map, 1e6))
        evs.append(([ev2], dict(map=True, aps=ev2["aps"], map6=ev2["map6"])))
    return evs


def gen_traces(seed, n, path):
    meta = {}
    tid = 0
    outs = pmap(_one_trace, [(seed, k) for k in range(n)], chunks=4)
    with open(path, "w") as f:
        for evs in outs:
            for group, info in evs:
                tid += 1
                meta[tid] = info
                for ev in group:
                    ev["tid"] = tid
                    f.write(json.dumps(ev) + "\n")
    return meta


def validate(ctx: Ctx, module, path, tag):
    res = T.run_tlc(module, workers=1, env={"TRACE_FILE": path}, tag=tag, coverage=False, heap="6g", allow_violation=False)
    ctx.states += res.distinct
    ctx.transitions += res.generated
    return [(int(m.group(1)), m.group(3)) for m in re.finditer(r'<<"REJECT", (\d+), (\d+), "([^"]+)">>', res.output)]


def run(ctx: Ctx):
    N, G = (5, 5) if ctx.quick else (6, 6)
    L = math.lcm(*range(1, N + 1))
    invs = ["InvOpEqDecl", "InvBounds", "InvZero", "InvPerfect", "InvIgnored"]
    res = T.run_model("MC_Ap", "MCAP_" + ctx.pid, dict(W=str(W), N=str(N), L=str(L), MaxG=str(G)), invariants=invs, model_values=(),
                      tlc_kwargs=dict(dump=True, allow_violation=False, timeout=3000))
    ctx.add_tlc(res, "MC_Ap N=%d W=%d G<=%d" % (N, W, G), must_take=["Eval"])
    ctx.log("tlc done %.1fs" % res.wall)
    states, _ = load_dump(res.dump_path, must_contain='phase = "done"')
    os.remove(res.dump_path)
    items = []
    for i, st in enumerate(states):
        modes = MODE_NAMES if not ctx.quick else [MODE_NAMES[i % 4]]
        items.append((st["r"], st["g"], dict(st["out"]), modes, ctx.seed + i))
    outs = pmap(replay_ap, items)
    for (r, g, out, _m, _s), (n, mism) in zip(items, outs):
        ctx.traces += n
        ctx.evaluations += n
        if any(x == -2 for x in r) or (len(set(r)) > 1 and g > 0):
            ctx.nontriv((tuple(r), g))
        for clause, msg, rep in mism:
            ctx.violation("replay:" + clause, msg, rep)
    if items:
        r, g, out, _m, _s = items[len(items) * 2 // 3]
        ctx.sample({"ranking(0..W=TP weight, -1=FP, -2=ignored)": list(r), "g": g, "spec_out": out})
    ctx.log("replay done")
    # traces
    ntr = 400 if ctx.quick else 4000
    path = os.path.join(ctx.out, "ap_traces.ndjson")
    meta = gen_traces(ctx.seed, ntr, path)
    ctx.log("traces generated")
    rejected = validate(ctx, "Trace_Ap", path, "Trace_Ap_" + ctx.pid)
    ctx.traces += len(meta)
    ctx.evaluations += len(meta)
    for tid, info in meta.items():
        if info.get("map") or info.get("n", 0) >= 3:
            ctx.nontriv(("trace", tid))
    for tid, clause in rejected:
        ctx.violation("trace:" + clause, "trace %d rejected by Trace_Ap: %s" % (tid, clause), meta.get(tid))
    k = sorted(meta)[len(meta) // 2]
    ctx.sample({"trace": k, **meta[k]})
    # frame-level and scene-level AP through the manager: the call histories of MC_ManagerHist (pooled rankings, ground-truth counts summed)
    from . import history

    history.replay_worlds(ctx, 2, want=lambda clause: clause in ("scene-score", "scene-gt-count", "raised") or (clause.startswith("frame-result") and "ap" in clause.split(":")[-1].split("+")),
                          tag="ap_")
    # engine T at manager level: the AP rows of add_frame_result on large random scenes must equal the specification's exact rationals
    from . import pipeline_trace

    ctx.extra["manager_executions_validated_as_traces"] = pipeline_trace.run(
        ctx, n=150 if ctx.quick else 3000, want=lambda rendering, clause: clause.startswith("ap-") or clause == "raised")
    ctx.rule = (
        "TLC enumerates every ranking of length <= N over {TP(w in 0..2), FP, ignored} x every ground-truth count 0..G and checks operational = "
        "declarative AP/APH, bounds, zero/perfect cases; every (ranking, g) is realised as real object results (shuffled input order, matching modes "
        "cycled / all four in thorough) and Ap.tp_list, fp_list, ap, APH and single-label Map compared with the specification's exact rationals; "
        "random buckets of up to 300 real results and multi-label Maps are validated as traces by TLC in fixed point; frame-level and scene-level "
        "AP of every call history of MC_ManagerHist (depth 2) is compared through the real manager. Non-trivial = ranking with an "
        "ignored entry or >= 2 different entry kinds and g > 0; trace with >= 3 results or a Map; distinct by (ranking, g) / trace id."
    )
    ctx.exhaustive = False
    ctx.assumptions += [
        "heading weights in replays use yaw differences k*pi/2 to either side of base headings spread over (-pi, pi] (plane-distance mode: base heading 0)",
        "trace AP compared in 1e-6 fixed point with tolerance (g+n+1)/g*1e-6; APH with tolerance ~1e-3*(1+n/g) and only for n <= 150",
        "trace driver skips buckets where a matching score is within 1e-5 of the threshold",
    ]
