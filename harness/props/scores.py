"""C06 — Lattice.tla bound to the four matching scores (engines M, R, T)."""
from __future__ import annotations

import math
import os
import random

from .. import tlc as T
from .. import trace
from ..core import Ctx, pmap
from ..tlaval import load_dump
from .pipeline import plain

INV = ["LawBounds", "LawSymmetry", "LawIdentical", "LawDisjoint", "Law3DvsBev", "LawPlane", "LawRoi"]
PYTH = [(1.0, 0.0), (0.6, 0.8), (0.8, 0.6), (-0.8, 0.6)]   # common directions (cos, sin): identity and 3-4-5 rotations


def mk(box, rot, shift, int_size=False):
    """real DynamicObject for lattice box under the common rigid motion: rotation `rot` about the ego, then `shift`"""
    from ..build import obj3d

    c, s_ = PYTH[rot]
    x, y, z = box["c"]
    th = math.atan2(s_, c)
    px, py = c * x - s_ * y + shift[0], s_ * x + c * y + shift[1]
    if int_size:     # the extents as Python ints (the lattice extents are integers): same box
        return obj3d((px, py, z + shift[2]), yaw=th + box["q"] * math.pi / 2, size=tuple(int(v) for v in box["s"]), label="car", size_as_given=True)
    return obj3d((px, py, z + shift[2]), yaw=th + box["q"] * math.pi / 2, size=tuple(float(v) for v in box["s"]), label="car")


def scores(e, g):
    from perception_eval.evaluation.matching import CenterDistanceMatching, IOU2dMatching, IOU3dMatching, PlaneDistanceMatching

    return (CenterDistanceMatching(e, g).value, IOU2dMatching(e, g).value, IOU3dMatching(e, g).value, PlaneDistanceMatching(e, g).value)


def _ext(b):
    ex, ey = (b["s"][1], b["s"][0]) if b["q"] % 2 == 0 else (b["s"][0], b["s"][1])
    return (2 * b["c"][0] - ex, 2 * b["c"][0] + ex), (2 * b["c"][1] - ey, 2 * b["c"][1] + ey)


def shares_collinear_edge(a, b):
    """two aligned footprints have edges on a common line that overlap or touch (touching boxes, flush nesting)"""
    (ax, ay), (bx, by) = _ext(a), _ext(b)
    for (a1, a2), (b1, b2), (c1, c2), (d1, d2) in (((ax), (bx), (ay), (by)), ((ay), (by), (ax), (bx))):
        if {a1, a2} & {b1, b2} and min(c2, d2) - max(c1, d1) >= 0:
            return True
    return False


def replay_box(arg):
    from perception_eval.evaluation.result.object_result import DynamicObjectWithPerceptionResult

    a, b, out = arg
    mism = []
    n = 0
    i2 = out["iou2"][0] / out["iou2"][1]
    i3 = out["iou3"][0] / out["iou3"][1]
    cd2 = out["cd"] / 4.0
    plane = sorted(v / 8.0 for v in out["plane"])
    for rot, shift, label in ((0, (0, 0, 0), "as-is"), (1, (0, 0, 0), "rotated-about-ego"), (3, (0, 0, 0), "rotated-about-ego"), (2, (7.0, -3.0, 2.0), "rotated+translated"),
                              (0, (262144.0, -131072.0, 0.0), "translated-far")):   # map coordinates of a large site (exactly representable)
        n += 1
        A, B = mk(a, rot, shift), mk(b, rot, shift)
        rep = {"a": a, "b": b, "motion": label, "rot(cos,sin)": PYTH[rot], "shift": shift, "spec": out}
        try:
            cd, iou2, iou3, pd = scores(A, B)
            cd_s, iou2_s, iou3_s, _ = scores(B, A)
            r = DynamicObjectWithPerceptionResult(A, B)
        except Exception as ex:
            mism.append(("raised", "raised %r" % (ex,), rep))
            continue
        rep["impl"] = dict(cd=cd, iou2=iou2, iou3=iou3, pd=pd)
        if abs(cd * cd - cd2) > 1e-9 or abs(cd_s - cd) > 1e-12:
            mism.append(("center-distance", "centre distance %r, specification sqrt(%r)" % (cd, cd2), rep))
        # GEOS overlay is not robust when two footprints have overlapping collinear edges and their corners are not exactly representable:
        # under a 3-4-5 rotation, or (found by the thorough tier) under the boxes' own yaw of a quarter/half turn, where sin(pi) = 1.2e-16
        # perturbs the corners (F11).  With yaw 0 and no common rotation the corners are exact and every mismatch is a plain violation.
        inexact = rot != 0 or a["q"] != 0 or b["q"] != 0
        degenerate = ":shared-collinear-edge-under-rotation" if (inexact and shares_collinear_edge(a, b)) else ""
        # (260 km from the origin a polygon area in double precision is good to about 1e-5 only: the distances are judged there, not the overlaps)
        tol_i = 1e-9 if label != "translated-far" else 1e-3
        if abs(iou2 - i2) > tol_i or abs(iou2_s - i2) > tol_i:
            mism.append(("iou2d" + degenerate, "BEV IoU %r / swapped %r, specification %s" % (iou2, iou2_s, out["iou2"]), rep))
        if abs(iou3 - i3) > tol_i or abs(iou3_s - i3) > tol_i:
            mism.append(("iou3d" + degenerate, "3-D IoU %r / swapped %r, specification %s" % (iou3, iou3_s, out["iou3"]), rep))
        if shift == (0, 0, 0) and not any(abs(pd * pd - v) < 1e-8 for v in plane):
            mism.append(("plane-distance", "plane distance^2 %r not among specification values %s" % (pd * pd, plane), rep))
        if abs(r.center_distance.value - cd) > 1e-12 or abs(r.iou_2d.value - iou2) > 1e-12 or abs(r.iou_3d.value - iou3) > 1e-12 or abs(r.plane_distance.value - pd) > 1e-12:
            mism.append(("object-result-attributes", "DynamicObjectWithPerceptionResult scores differ from MatchingMethod values", rep))
        if label == "as-is":
            # the same pair stored in the MAP frame under two ego poses, transforms supplied: plane distance picks the ground truth's
            # side nearest to the EGO (not to the map origin)
            from pyquaternion import Quaternion
            from perception_eval.common.schema import FrameID
            from perception_eval.evaluation.matching import PlaneDistanceMatching
            from ..build import EgoPose

            for ego in (EgoPose(40.0, -25.0, 0.0, math.atan2(0.8, 0.6)), EgoPose(-3.0, 7.0, 0.0, math.pi / 2)):
                Am, Bm = mk(a, 0, (0, 0, 0)), mk(b, 0, (0, 0, 0))
                for o_ in (Am, Bm):
                    p_, y_ = ego.to_map(o_.state.position, o_.state.orientation.yaw_pitch_roll[0])
                    o_.state.position = p_
                    o_.state.orientation = Quaternion(axis=[0, 0, 1], radians=y_)
                    o_.frame_id = FrameID.MAP
                try:
                    # the ego pose comes out of a scratch array that the caller overwrites right after building the transform
                    from perception_eval.common.transform import HomogeneousMatrix as _HM, TransformDict as _TD
                    import numpy as _np

                    buf = _np.array(ego.t, dtype=float)
                    tdb = _TD([_HM(buf, ego.q, src=FrameID.BASE_LINK, dst=FrameID.MAP)])
                    buf += 1234.5
                    pdb = PlaneDistanceMatching(Am, Bm, transforms=tdb).value
                    if not any(abs(pdb * pdb - v) < 1e-8 for v in plane):
                        mism.append(("plane-distance:map-storage:callers-buffer", "plane distance^2 %r after the caller reused the array its ego pose came from, specification %s" % (pdb * pdb, plane), rep))
                    pdm = PlaneDistanceMatching(Am, Bm, transforms=ego.transforms()).value
                    if not any(abs(pdm * pdm - v) < 1e-8 for v in plane):
                        mism.append(("plane-distance:map-storage", "plane distance^2 %r of the pair stored in map not among specification values %s" % (pdm * pdm, plane), rep))
                except Exception as ex:
                    mism.append(("raised", "PlaneDistanceMatching in map storage raised %r" % (ex,), rep))
            # the same boxes with their extents given as integers / numpy integers
            try:
                import numpy as _np

                Ai, Bi = mk(a, 0, (0, 0, 0), int_size=True), mk(b, 0, (0, 0, 0), int_size=True)
                Bi.state.shape.size  # noqa: B018
                cd_i, i2_i, i3_i, pd_i = scores(Ai, Bi)
                if abs(cd_i - cd) > 1e-12 or abs(i2_i - iou2) > 1e-9 or abs(i3_i - iou3) > 1e-9 or abs(pd_i - pd) > 1e-9 or abs(Ai.get_area_bev() - A.get_area_bev()) > 1e-9:
                    mism.append(("integer-extents", "extents given as ints: scores %s, as floats %s" % ((cd_i, i2_i, i3_i, pd_i), (cd, iou2, iou3, pd)), rep))
            except Exception as ex:
                mism.append(("raised", "integer extents raised %r" % (ex,), rep))
            # the same pair obtained by the library's own interpolation between two poses that were scored before (a derived object carries
            # whatever its sources had cached): the scores depend on the boxes only
            try:
                from perception_eval.common.geometry import interpolate_dynamic_object

                def derive(box, d):
                    lo, hi = mk(box, 0, (-d[0], -d[1], 0.0)), mk(box, 0, (d[0], d[1], 0.0))
                    scores(lo, hi)
                    lo.get_corners()
                    return interpolate_dynamic_object(lo, hi, 1000, 2000, 1500)

                Ad, Bd = derive(a, (3.0, -2.0)), derive(b, (-5.0, 1.0))
                cd_d, i2_d, i3_d, pd_d = scores(Ad, Bd)
                dg = ":shared-collinear-edge-under-rotation" if shares_collinear_edge(a, b) else ""
                if abs(cd_d * cd_d - cd2) > 1e-9:
                    mism.append(("center-distance:derived-objects", "centre distance %r of interpolated objects, specification sqrt(%r)" % (cd_d, cd2), rep))
                if abs(i2_d - i2) > 1e-9:
                    mism.append(("iou2d%s%s" % (dg, "" if dg else ":derived-objects"), "BEV IoU %r of interpolated objects, specification %s" % (i2_d, out["iou2"]), rep))
                if abs(i3_d - i3) > 1e-9:
                    mism.append(("iou3d%s%s" % (dg, "" if dg else ":derived-objects"), "3-D IoU %r of interpolated objects, specification %s" % (i3_d, out["iou3"]), rep))
                if not any(abs(pd_d * pd_d - v) < 1e-8 for v in plane):
                    mism.append(("plane-distance:derived-objects", "plane distance^2 %r of interpolated objects not among specification values %s" % (pd_d * pd_d, plane), rep))
            except Exception as ex:
                mism.append(("raised", "interpolated objects raised %r" % (ex,), rep))
            fp = list(A.get_footprint().exterior.coords)[:4]
            want = [(p[0] / 2.0, p[1] / 2.0) for p in out["cornersA"]]
            if any(abs(f[0] - w[0]) > 1e-9 or abs(f[1] - w[1]) > 1e-9 for f, w in zip(fp, want)):
                mism.append(("footprint", "get_footprint %s, specification %s" % (fp, want), rep))
            if abs(A.get_area_bev() - out["areaA"] / 4.0) > 1e-9 or abs(A.get_volume() - out["volA"] / 8.0) > 1e-9:
                mism.append(("area-volume", "area %r volume %r" % (A.get_area_bev(), A.get_volume()), rep))
    return n, mism


def replay_roi(arg):
    from perception_eval.evaluation.matching import CenterDistanceMatching, IOU2dMatching

    from ..build import obj2d

    a, b, out = arg
    A = obj2d((a[0], a[1]), size=(a[2], a[3]))
    B = obj2d((b[0], b[1]), size=(b[2], b[3]))
    rep = {"a": a, "b": b, "spec": out}
    mism = []
    try:
        cd, cd_s = CenterDistanceMatching(A, B).value, CenterDistanceMatching(B, A).value
        io, io_s = IOU2dMatching(A, B).value, IOU2dMatching(B, A).value
    except Exception as ex:
        return 1, [("raised", "raised %r" % (ex,), rep)]
    if abs(cd * cd - out["cd"]) > 1e-9 or abs(cd - cd_s) > 1e-12:
        mism.append(("roi-center-distance", "ROI centre distance %r, specification sqrt(%r)" % (cd, out["cd"]), rep))
    if abs(io - out["iou2"][0] / out["iou2"][1]) > 1e-9 or abs(io - io_s) > 1e-12:
        mism.append(("roi-iou", "ROI IoU %r, specification %s" % (io, out["iou2"]), rep))
    # the same ROIs on 2-D objects that also carry the optional 3-D position: the 2-D scores are about the ROIs
    try:
        for o_, p_ in ((A, (12.0, 3.0, 0.5)), (B, (40.0, -7.0, 1.0))):
            o_.set_position(p_) if hasattr(o_, "set_position") else setattr(o_.state, "position", p_)
        cd_p, io_p = CenterDistanceMatching(A, B).value, IOU2dMatching(A, B).value
        if abs(cd_p - cd) > 1e-12 or abs(io_p - io) > 1e-12:
            mism.append(("roi-scores-depend-on-3d-position", "with a 3-D position attached: centre distance %r (was %r), IoU %r (was %r)" % (cd_p, cd, io_p, io), rep))
    except Exception as ex:
        mism.append(("raised", "2-D objects with a position raised %r" % (ex,), rep))
    return 1, mism


def _rand_box(rng, near=None):
    from ..build import obj3d

    if near is None:
        pos = (rng.uniform(-60, 60), rng.uniform(-60, 60), rng.uniform(-2, 2))
    else:
        d = rng.choice([0.0, 0.1, 0.5, 1.5, 4.0, 12.0])
        ang = rng.uniform(0, 2 * math.pi)
        pos = (near[0] + d * math.cos(ang), near[1] + d * math.sin(ang), near[2] + rng.uniform(-1, 1))
    w = rng.choice([0.2, 0.5, 1.0, 2.0, 2.5])
    ln = w * rng.choice([1.0, 1.5, 2.5, 10.0, 50.0]) if rng.random() < 0.8 else rng.uniform(0.2, 12.0)
    size = (w, min(ln, 25.0), rng.uniform(0.3, 3.5))
    return pos, rng.uniform(-math.pi, math.pi), size


def trace_events(seed, n):
    from ..build import obj3d

    rng = random.Random(seed)
    evs, info = [], {}
    tid = 0
    while tid < n:
        pa, ya, sa = _rand_box(rng)
        ident = rng.random() < 0.05
        if ident:
            pb, yb, sb = pa, ya, sa
        else:
            pb, yb, sb = _rand_box(rng, near=pa if rng.random() < 0.8 else None)
        A, B = obj3d(pa, yaw=ya, size=sa), obj3d(pb, yaw=yb, size=sb)
        far = math.dist(pa[:2], pb[:2]) > (math.hypot(sa[0], sa[1]) + math.hypot(sb[0], sb[1])) / 2 + 0.01
        # common rigid motion: rotation about the ego (+ translation half of the time)
        th = rng.uniform(-math.pi, math.pi)
        rot_only = rng.random() < 0.5
        sh = (0.0, 0.0, 0.0) if rot_only else (rng.uniform(-100, 100), rng.uniform(-100, 100), rng.uniform(-3, 3))

        def move(p, y):
            c, s_ = math.cos(th), math.sin(th)
            return (c * p[0] - s_ * p[1] + sh[0], s_ * p[0] + c * p[1] + sh[1], p[2] + sh[2]), y + th

        pa2, ya2 = move(pa, ya)
        pb2, yb2 = move(pb, yb)
        A2, B2 = obj3d(pa2, yaw=ya2, size=sa), obj3d(pb2, yaw=yb2, size=sb)
        cd, i2, i3, pd = scores(A, B)
        cds, i2s, i3s, _ = scores(B, A)
        cdm, i2m, i3m, pdm = scores(A2, B2)
        # plane distance depends on which ground-truth corners are nearest the ego: skip near-ties of the corner ranking
        gc = sorted(math.hypot(p[0], p[1]) for p in list(B.get_footprint().exterior.coords)[:4])
        if rot_only and (gc[2] - gc[1] < 1e-6):
            continue
        # slivers thinner than 1e-6 / touching boxes are excluded by the statement ("positive size", margins)
        if 0 < i2 < 1e-7:
            continue
        tid += 1
        f6 = lambda v: int(round(v * 1e6))
        f4 = lambda v: int(round(v * 1e4))
        evs.append(dict(tid=tid, iou2=f6(i2), iou3=f6(i3), iou2_swapped=f6(i2s), iou3_swapped=f6(i3s), iou2_moved=f6(i2m), iou3_moved=f6(i3m),
                        cd4=f4(cd), cd4_swapped=f4(cds), cd4_moved=f4(cdm), pd4=f4(pd), pd4_moved=f4(pdm), rot_only=1 if rot_only else 0,
                        identical=1 if ident else 0, far=1 if far else 0,
                        dx=int(round((pa[0] - pb[0]) * 100)), dy=int(round((pa[1] - pb[1]) * 100)), dz=int(round((pa[2] - pb[2]) * 100))))
        info[tid] = dict(a=[pa, ya, sa], b=[pb, yb, sb], motion=[th, sh], scores=[cd, i2, i3, pd], moved=[cdm, i2m, i3m, pdm])
    return evs, info


def run(ctx: Ctx):
    consts = dict(CX="-2..2", CY="-2..2", CZ="{0,1,3}", SW="{1,2,4}", SL="{1,2,6}", SH="{1,2}", RoiPos="{-3,-2,0,1}" if ctx.quick else "-3..2", RoiSize="1..3",
                  Sample="70" if ctx.quick else "400")
    res = T.run_model("MC_Scores", "MCS_" + ctx.pid, consts, invariants=INV, model_values=(), tlc_kwargs=dict(dump=True, allow_violation=False, seed=ctx.seed, timeout=3000))
    ctx.add_tlc(res, "MC_Scores %s" % consts, must_take=["Next"])
    states, _ = load_dump(res.dump_path, must_contain='phase = "done"')
    os.remove(res.dump_path)
    boxes = [(plain(st["a"]), plain(st["b"]), plain(st["out"])) for st in states if st["kind"] == "box"]
    rois = [(plain(st["a"]), plain(st["b"]), plain(st["out"])) for st in states if st["kind"] == "roi"]
    cls = {"identical": 0, "disjoint": 0, "nested": 0, "partial": 0}
    for items, fn in ((boxes, replay_box), (rois, replay_roi)):
        outs = pmap(fn, items)
        for it, (n, mism) in zip(items, outs):
            ctx.traces += n
            ctx.evaluations += n
            o = it[2]
            if o["iou2"][0] > 0:
                ctx.nontrivial_count += 1
            if fn is replay_box:
                if o["iou2"][0] == o["iou2"][1]:
                    cls["identical"] += 1
                elif o["iou2"][0] == 0:
                    cls["disjoint"] += 1
                elif o["iou2"][0] * 4 in (o["areaA"] * 4,) or o["iou2"][0] == o["areaA"]:
                    cls["nested"] += 1
                else:
                    cls["partial"] += 1
            for clause, msg, rep in mism:
                ctx.violation(clause, msg, rep)
    ctx.extra["box_pair_classes"] = cls
    ctx.sample({"box_a": boxes[len(boxes) // 2][0], "box_b": boxes[len(boxes) // 2][1], "spec": boxes[len(boxes) // 2][2]})
    ctx.sample({"roi_a": rois[len(rois) // 2][0], "roi_b": rois[len(rois) // 2][1], "spec": rois[len(rois) // 2][2]})
    evs, info = trace_events(ctx.seed, 1500 if ctx.quick else 15000)
    rej = trace.validate(ctx, "Trace_Scores", evs)
    ctx.traces += len(evs)
    ctx.evaluations += len(evs)
    ctx.nontrivial_count += sum(1 for e in evs if e["iou2"] > 0)
    for t_, line, clause in rej:
        ctx.violation("trace:" + clause, "%s -> %s" % (info[t_], clause), info[t_])
    ctx.sample(info[len(info) // 2])
    ctx.exhaustive = False
    ctx.rule = (
        "TLC computes the exact scores (IoU as rationals, squared distances, admissible plane distances under corner-ranking ties) of pairs of "
        "lattice boxes (centres in a 5x5x2 window, sizes {1,2,4}x{1,2,6}x{1,2} from slivers to squares, quarter-turn yaws; random pairs plus "
        "identical / turned / nested / shifted relatives) and of all integer ROI pairs, checking bounds, symmetry, identical -> 1, disjoint -> 0, "
        "IoU3 <= IoU2, plane >= 0; each pair is realised as real objects as is, rotated about the ego by 3-4-5 angles and rotated + translated, and "
        "all four MatchingMethod values, the DynamicObjectWithPerceptionResult attributes, footprint corners, area and volume are compared with "
        "the exact values (1e-9). Random float pairs (any relative yaw, size ratio to 1:50) with random rigid motions are validated as traces "
        "against the relational laws. Non-trivial = overlapping pair."
    )
    ctx.assumptions += [
        "numerical exactness of a PARTIAL overlap at a non-right relative yaw is not decided (relational laws only): see DESIGN.md section 8",
        "trace driver skips pairs whose ground-truth corner ranking is within 1e-6 of a tie and slivers of IoU < 1e-7",
    ]
