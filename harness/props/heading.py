"""C09 — Heading.tla bound to get_heading_bev / heading_error / TPMetricsAph (engines M, R, T)."""
from __future__ import annotations

import math
import os
import random

from .. import tlc as T
from .. import trace
from ..core import Ctx, pmap
from ..tlaval import load_dump

M = 24
INV = ["LawSym", "LawOne", "LawZero", "LawRot", "LawRange", "LawErr"]


def grid_yaw(i):
    """grid index -> yaw in (-pi, pi]"""
    i = i % M
    if i > M // 2:
        i -= M
    return i * 2 * math.pi / M


def measure(yaw_e, yaw_g, rendering, ego, sign_e=1, sign_g=1, roll=0.0, pitch=0.0):
    """-> (weight, weight with swapped roles, yaw error est->gt, yaw error gt->est, aph tp value)"""
    from pyquaternion import Quaternion

    from perception_eval.evaluation.metrics.detection.ap import Ap
    from perception_eval.evaluation.metrics.detection.tp_metrics import TPMetricsAph
    from perception_eval.evaluation.result.object_result import DynamicObjectWithPerceptionResult

    from ..build import AW, MODES, obj3d

    fr = "map" if rendering == "map" else "base_link"
    e = obj3d((5.0, 2.0, 0.0), yaw=yaw_e, label="car", score=0.8, frame=fr, ego=ego, quat_sign=sign_e)
    g = obj3d((5.2, 2.1, 0.0), yaw=yaw_g, label="car", score=1.0, frame=fr, ego=ego, quat_sign=sign_g)
    if roll or pitch:
        # the two objects are tilted differently (estimate: roll, pitch; ground truth: -pitch / 2, roll)
        for o, s, (rl, pt) in ((e, sign_e, (roll, pitch)), (g, sign_g, (-pitch / 2.0, roll))):
            y = o.state.orientation.yaw_pitch_roll[0]
            # pyquaternion's yaw_pitch_roll inverts q = Rx(roll) * Ry(pitch) * Rz(yaw)
            q = Quaternion(axis=[1, 0, 0], radians=rl) * Quaternion(axis=[0, 1, 0], radians=pt) * Quaternion(axis=[0, 0, 1], radians=y)
            o.state.orientation = q if s > 0 else Quaternion(-q.elements)
    tf = ego.transforms() if ego is not None else None
    r = DynamicObjectWithPerceptionResult(e, g, transforms=tf)
    r2 = DynamicObjectWithPerceptionResult(g, e, transforms=tf)
    m = TPMetricsAph()
    w, w2 = m.get_value(r), m.get_value(r2)
    he, he2 = r.heading_error[2], r2.heading_error[2]
    ap = Ap(TPMetricsAph(), [[r]], 1, [AW["car"]], MODES["center"], [1.0])
    return w, w2, he, he2, ap.tp_list[0]


def aph_of_three(yaw_e, yaw_g, rendering, ego):
    """three TPs with heading differences d, d + 90 deg, d + 180 deg handed to Ap in an order that is NOT the confidence order: each TP contributes
    the weight of ITS OWN pair -> (increments of tp_list in confidence order, the three weights computed pair by pair in that order)"""
    from perception_eval.evaluation.metrics.detection.ap import Ap
    from perception_eval.evaluation.metrics.detection.tp_metrics import TPMetricsAph
    from perception_eval.evaluation.result.object_result import DynamicObjectWithPerceptionResult

    from ..build import AW, MODES, obj3d

    fr = "map" if rendering == "map" else "base_link"
    tf = ego.transforms() if ego is not None else None
    rs = []
    for i, (extra, conf) in enumerate(((0.0, 0.3), (math.pi / 2, 0.9), (math.pi, 0.6))):
        e = obj3d((5.0 + 10.0 * i, 2.0, 0.0), yaw=yaw_e + extra, label="car", score=conf, frame=fr, ego=ego)
        g = obj3d((5.2 + 10.0 * i, 2.1, 0.0), yaw=yaw_g, label="car", score=1.0, frame=fr, ego=ego)
        rs.append(DynamicObjectWithPerceptionResult(e, g, transforms=tf))
    m = TPMetricsAph()
    own = [m.get_value(x) for x in rs]
    ap = Ap(TPMetricsAph(), [list(rs)], 3, [AW["car"]], MODES["center"], [1.0])
    tl = list(ap.tp_list)
    incr = [tl[0]] + [tl[i] - tl[i - 1] for i in range(1, len(tl))]
    return incr, [own[1], own[2], own[0]]


def measure_derived(yaw_e, yaw_g, rendering, ego):
    """the ground truth is not built afresh but derived by the library (interpolate_dynamic_object between two annotated objects that have
    already been scored, 30 degrees before / after yaw_g): physical heading yaw_g again -> (weight, yaw error)"""
    from perception_eval.common.geometry import interpolate_dynamic_object
    from perception_eval.evaluation.metrics.detection.tp_metrics import TPMetricsAph
    from perception_eval.evaluation.result.object_result import DynamicObjectWithPerceptionResult

    from ..build import obj3d

    fr = "map" if rendering == "map" else "base_link"
    step = 2 * 2 * math.pi / M
    e = obj3d((5.0, 2.0, 0.0), yaw=yaw_e, label="car", score=0.8, frame=fr, ego=ego, time=1500)
    g0 = obj3d((5.2, 2.1, 0.0), yaw=yaw_g - step, label="car", score=1.0, frame=fr, ego=ego, uuid="g", time=1000)
    g1 = obj3d((5.2, 2.1, 0.0), yaw=yaw_g + step, label="car", score=1.0, frame=fr, ego=ego, uuid="g", time=2000)
    tf = ego.transforms() if ego is not None else None
    m = TPMetricsAph()
    for g in (g0, g1):                      # the neighbours are scored first, as a run over the annotated frames would
        m.get_value(DynamicObjectWithPerceptionResult(e, g, transforms=tf))
    gi = interpolate_dynamic_object(g0, g1, 1000, 2000, 1500)
    r = DynamicObjectWithPerceptionResult(e, gi, transforms=tf)
    return m.get_value(r), r.heading_error[2]


def replay(arg):
    from ..build import EgoPose

    a, b, k, out = arg
    mism = []
    n = 0
    want_w = out["w"] / (M // 2)
    want_d = out["d"] * 2 * math.pi / M
    ego = EgoPose(120.0, -45.5, 0.0, grid_yaw(k))
    cases = [("base_link", None, grid_yaw(a + k), grid_yaw(b + k)), ("map", ego, grid_yaw(a), grid_yaw(b))]
    for rendering, eg, ya, yb in cases:
        for se, sg in ((1, 1), (-1, 1), (1, -1)):
            n += 1
            rep = {"a": a, "b": b, "k": k, "rendering": rendering, "yaw_est": ya, "yaw_gt": yb, "quat_signs": [se, sg], "spec": out}
            try:
                w, w2, he, he2, tpv = measure(ya, yb, rendering, eg, se, sg)
            except Exception as ex:
                mism.append(("raised", "raised %r" % (ex,), rep))
                continue
            rep["impl"] = dict(weight=w, swapped=w2, yaw_error=he, yaw_error_swapped=he2, aph_tp=tpv)
            tag = ("ego" if rendering == "base_link" else "map") + (":negated-quaternion" if (se, sg) != (1, 1) else "")
            if abs(w - want_w) > 1e-9 or abs(w2 - want_w) > 1e-9 or abs(tpv - want_w) > 1e-9:
                mism.append(("aph-weight:" + tag, "APH weight %r / swapped %r / tp %r, specification %r (yaws %.4f, %.4f)" % (w, w2, tpv, want_w, ya, yb), rep))
            for e_ in (he, he2):
                if e_ < -math.pi - 1e-9 or e_ > math.pi + 1e-9 or abs(abs(e_) - want_d) > 1e-9:
                    mism.append(("yaw-error:" + tag, "yaw error %r, specification magnitude %r" % (e_, want_d), rep))
                    break
        try:
            incr, own = aph_of_three(ya, yb, rendering, eg)
            if len(incr) != 3 or any(abs(x - y) > 1e-9 for x, y in zip(incr, own)) or abs(own[2] - want_w) > 1e-9:
                mism.append(("aph-weight:not-its-own-pair", "three TPs in non-confidence order: tp_list increments %s, weights of the pairs in confidence order %s (first pair: specification %r)" % (
                    incr, own, want_w), {"a": a, "b": b, "k": k, "rendering": rendering}))
        except Exception as ex:
            mism.append(("raised", "raised %r" % (ex,), {"a": a, "b": b, "k": k, "rendering": rendering}))
        n += 1
        rep = {"a": a, "b": b, "k": k, "rendering": rendering, "yaw_est": ya, "yaw_gt": yb, "ground_truth": "interpolated between two scored neighbours", "spec": out}
        try:
            w, he = measure_derived(ya, yb, rendering, eg)
            if abs(w - want_w) > 1e-9:
                mism.append(("aph-weight:derived-object", "APH weight %r for an interpolated ground truth, specification %r (yaws %.4f, %.4f)" % (w, want_w, ya, yb), rep))
            if he < -math.pi - 1e-9 or he > math.pi + 1e-9 or abs(abs(he) - want_d) > 1e-9:
                mism.append(("yaw-error:derived-object", "yaw error %r for an interpolated ground truth, specification magnitude %r" % (he, want_d), rep))
        except Exception as ex:
            mism.append(("raised", "raised %r" % (ex,), rep))
    return n, mism


def trace_events(seed, n):
    from ..build import EgoPose

    rng = random.Random(seed)
    evs, info = [], {}
    for tid in range(1, n + 1):
        ya = rng.uniform(-math.pi, math.pi)
        yb = rng.choice([ya, ya + math.pi, rng.uniform(-math.pi, math.pi), ya + rng.gauss(0, 0.2)])
        yb = math.atan2(math.sin(yb), math.cos(yb))
        rendering = rng.choice(["base_link", "map"])
        ego = EgoPose(rng.uniform(-500, 500), rng.uniform(-500, 500), 0.0, rng.uniform(-math.pi, math.pi)) if rendering == "map" else None
        se, sg = rng.choice([1, -1]), rng.choice([1, -1])
        tilt = rng.random() < 0.3
        roll, pitch = (rng.uniform(-0.08, 0.08), rng.uniform(-0.08, 0.08)) if tilt else (0.0, 0.0)
        w, w2, he, he2, tpv = measure(ya, yb, rendering, ego, se, sg, roll, pitch)
        ia, ib = int(round(ya * 1e4)), int(round(yb * 1e4))
        # a tilted object stored in map: its yaw relative to the (yaw-only) ego differs from the map yaw minus the ego yaw by O(roll * pitch)
        slack = 2.0 * (roll * roll + pitch * pitch) if (tilt and rendering == "map") else 0.0
        evs.append(dict(tid=tid, a=ia % 62832, b=ib % 62832, w4=int(round(w * 1e4)), w4r=int(round(w2 * 1e4)), e=int(round(he * 1e4)),
                        tolw=int(math.ceil(1e4 * slack / math.pi)) + (1 if slack else 0), tole=int(math.ceil(1e4 * slack)) + (1 if slack else 0)))
        info[tid] = dict(yaw_est=ya, yaw_gt=yb, rendering=rendering, signs=[se, sg], roll=roll, pitch=pitch, weight=w, yaw_error=he)
    return evs, info


def run(ctx: Ctx):
    # the analysis tool reports the yaw error of every paired row as well (several pairs at once, wrap-arounds in both directions)
    from . import analyzer as _an

    _an.yaw_traces(ctx)
    res = T.run_model("MC_Heading", "MCH", dict(M=str(M)), invariants=INV, model_values=(), tlc_kwargs=dict(dump=True, allow_violation=False, timeout=1200))
    ctx.add_tlc(res, "MC_Heading M=24 (15 degree grid)")
    states, _ = load_dump(res.dump_path, must_contain='phase = "done"')
    os.remove(res.dump_path)
    items = [(st["a"], st["b"], st["k"], dict(st["out"])) for st in states]
    if ctx.quick:
        items = [it for it in items if it[2] in (0, 5, 12, 19)]
    outs = pmap(replay, items)
    for it, (n, mism) in zip(items, outs):
        ctx.traces += n
        ctx.evaluations += n
        if it[0] != it[1]:
            ctx.nontriv(it[:3])
        for clause, msg, rep in mism:
            ctx.violation(clause, msg, rep)
    ctx.sample({"a": items[100][0], "b": items[100][1], "common_rotation": items[100][2], "spec": items[100][3], "unit": "15 degrees"})
    evs, info = trace_events(ctx.seed, 2000 if ctx.quick else 20000)
    rej = trace.validate(ctx, "Trace_Heading", evs)
    ctx.traces += len(evs)
    ctx.evaluations += len(evs)
    ctx.nontrivial_count += len(evs)
    for t_, line, clause in rej:
        i = info[t_]
        tag = ("ego" if i["rendering"] == "base_link" else "map") + (":negated-quaternion" if i["signs"] != [1, 1] else "")
        ctx.violation("trace:%s:%s" % (clause, tag), "%s -> %s" % (i, clause), i)
    ctx.sample(info[len(info) // 2])
    ctx.exhaustive = False
    ctx.rule = (
        "TLC checks the laws of the minimal yaw difference on Z/24 (symmetry, 1 for equal, 0 for opposite, common-rotation invariance, range, an "
        "admissible signed error exists) for all 24x24x24 (estimate, ground truth, common rotation) triples; each triple is realised as real objects "
        "in base_link (both rotated by k) and in map (ego yaw k), with the three quaternion sign combinations, and TPMetricsAph.get_value (both "
        "argument orders), Ap.tp_list with TPMetricsAph and object_result.heading_error compared exactly; random yaws (any angle, both signs, small "
        "roll/pitch, random ego pose) are validated as traces in 0.1 mrad fixed point. Non-trivial = different headings; every trace."
    )
    ctx.assumptions += ["exact on the 15-degree grid; continuous yaws in fixed point with tolerance 1.3e-4 on the weight and 0.4 mrad on the error"]
