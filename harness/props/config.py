"""C15 — Thresholds.tla / Config.tla bound to set_thresholds and the configuration classes (engines M, R)."""
from __future__ import annotations

import json
import os
import shutil
import tempfile

from .. import tlc as T
from ..core import Ctx, pmap
from ..tlaval import load_dump
from .pipeline import plain

INV = ["InvShape", "InvIdempotent", "InvNoPad", "InvRejects"]
BADS = ["a", None, {"k": 1}]
_TMP = None


def to_py(t, k=[0]):
    if t[0] == "num":
        # a threshold is any real number: Python float / int, numpy scalars of several widths, a Fraction
        import fractions

        import numpy as _np

        k[0] += 1
        kinds = (float, int, _np.float64, _np.float32, _np.int64, lambda v: fractions.Fraction(int(v), 1), float, int)
        return kinds[k[0] % len(kinds)](t[1])
    if t[0] == "bad":
        k[0] += 1
        return BADS[k[0] % len(BADS)]
    return [to_py(x, k) for x in t[1]]


def plainnum(x):
    """numbers of any kind -> float, lists recursively; everything else as it is (comparisons never see numpy scalars)"""
    import numbers

    if isinstance(x, bool):
        return x
    if isinstance(x, numbers.Real):
        return float(x)
    if isinstance(x, (list, tuple)):
        return [plainnum(v) for v in x]
    return x


def replay_thr(arg):
    from perception_eval.common.threshold import set_thresholds

    tree, n, nest, out = arg
    import copy

    py = to_py(tree)
    py0 = copy.deepcopy(py)
    rep = {"tree": tree, "python": repr(py), "n": n, "nest": nest, "spec": out}
    try:
        got = set_thresholds(py, n, nest)
        ok = True
    except Exception as ex:
        got = "raised %s" % type(ex).__name__
        ok = False
    rep["impl"] = repr(got)
    # the public shape checks accept exactly the values that are already in normal form (one value per label, all numeric)
    if isinstance(py0, list) and py0:        # (an empty list is "no threshold row at all": the helpers have nothing to check)
        from perception_eval.common.threshold import check_nested_thresholds, check_thresholds

        normal = out[0] != "err" and plainnum(py0) == plainnum([list(r) for r in out[1]] if nest else list(out[1]))
        try:
            (check_nested_thresholds if nest else check_thresholds)(copy.deepcopy(py0), n)
            acc = True
        except Exception:
            acc = False
        if acc != normal:
            return [("shape-check-%s" % ("accepts-non-normal" if acc else "rejects-normal"), "%s(%r, %d) %s" % ("check_nested_thresholds" if nest else "check_thresholds", py0, n,
                                                                                                         "accepted" if acc else "raised"), rep)]
    if repr(py) != repr(py0):
        return [("specification-rewritten", "set_thresholds(%r, %d, %s) rewrote its argument to %r" % (py0, n, nest, py), rep)]
    if out[0] == "err":
        if ok:
            has_bad = "bad" in json.dumps(tree)
            row_bad = nest and has_bad
            return [("accepted-malformed:" + ("nested-row-non-numeric" if row_bad else "shape"), "set_thresholds(%r, %d, %s) accepted -> %r" % (py, n, nest, got), rep)]
        return []
    if not ok:
        return [("rejected-wellformed", "set_thresholds(%r, %d, %s) raised" % (py, n, nest), rep)]
    want = [list(r) for r in out[1]] if nest else list(out[1])
    mism = []
    if plainnum(got) != plainnum(want):
        mism.append(("wrong-value", "set_thresholds(%r, %d, %s) = %r, specification %r" % (py, n, nest, got, want), rep))
    else:
        try:
            again = set_thresholds(got, n, nest)
            if plainnum(again) != plainnum(got):
                mism.append(("not-idempotent", "normalising %r again gives %r" % (got, again), rep))
        except Exception as ex:
            mism.append(("not-idempotent", "normalising %r again raised %r" % (got, ex), rep))
    return mism


def _tmp():
    global _TMP
    if _TMP is None:
        _TMP = tempfile.mkdtemp(prefix="verif_cfg_")
        import atexit

        atexit.register(shutil.rmtree, _TMP, True)
    return _TMP


TARGET_VARIANTS = [(["car", "pedestrian", "bicycle"], False), (["car", "truck", "bus"], True), (["car", "vehicle.car", "pedestrian"], False),
                   (["BICYCLE", "motorbike", "car"], True), (["car", "pedestrian", "bicycle"], False)]


CORRUPT_PREFIXES = ["", "auto", "ware", "Autoware", "autoware ", "traffic", "light", "_", "traffic_light_", "a", "foo", None, 5]


def concrete(c):
    # target spellings: distinct labels, labels that merge into one class, an alias of the same class (the number of target labels is the
    # number of names given, whatever they resolve to)
    import zlib

    names, merge = TARGET_VARIANTS[zlib.crc32(json.dumps(c, sort_keys=True).encode()) % len(TARGET_VARIANTS)]
    d = {"evaluation_task": c["task"], "target_labels": names[: c["n"]], "label_prefix": "autoware", "merge_similar_labels": merge}
    pk = c.get("prefix", "ok")
    if pk == "missing":
        del d["label_prefix"]
    elif pk == "corrupt":
        # near misses of the two family names: parts of them, other case, padding, another type
        d["label_prefix"] = CORRUPT_PREFIXES[zlib.crc32(json.dumps(c, sort_keys=True).encode() + b"p") % len(CORRUPT_PREFIXES)]
    if c["mgr"] == "sensing":
        d.update({"box_scale_0m": 1.0, "box_scale_100m": 1.0, "min_points_threshold": 1})
    if c["x"]:
        d["max_x_position"] = 100.0
    if c["y"]:
        d["max_y_position"] = [100.0, 50.0]
    if c["dmax"]:
        d["max_distance"] = 90.0
    if c["dmin"]:
        d["min_distance"] = 5.0
    if c["minPts"]:
        d["min_point_numbers"] = [0, 3]
    if c["mgr"] == "perception":
        d["center_distance_thresholds"] = [[1.0, 2.0]] if c["thr"] == "ok" else [[1.0, 2.0, 3.0]]
        d["iou_2d_thresholds"] = [0.5]
        if c["task"] not in ("detection2d", "tracking2d", "classification2d", "fp_validation2d"):
            d["plane_distance_thresholds"] = [2.0, 3.0]
            d["iou_3d_thresholds"] = 0.3
        if c["unknownKey"]:
            d["foo_thresholds"] = [0.8]
    if c.get("auxShape", "list") != "list":
        val = {"scalar": 3, "zero": 0, "singleton": [2], "empty": [], "short": [1, 2, 3]}[c["auxShape"]]
        if c["aux"] in ("confidence_threshold",) and isinstance(val, int):
            val = val / 10.0
        d[c["aux"]] = val
    is2d = c["task"] in ("detection2d", "tracking2d", "classification2d", "fp_validation2d")
    if c["nFrameIds"] == 1:
        frame_id = "cam_front" if is2d else "base_link"
    else:
        frame_id = ["cam_front", "cam_back"] if is2d else ["base_link", "map"]
    return d, frame_id


def replay_cfg(arg):
    c, out = arg
    if c.get("prefix") != "corrupt":
        return replay_cfg_one(c, out, None)
    mism = []
    for v in CORRUPT_PREFIXES:      # every near miss of a family name
        mism += replay_cfg_one(c, out, v)
    return mism


def replay_cfg_one(c, out, prefix_value):
    from perception_eval.config import PerceptionEvaluationConfig, SensingEvaluationConfig

    d, frame_id = concrete(c)
    if c.get("prefix") == "corrupt":
        d["label_prefix"] = prefix_value
    cls = PerceptionEvaluationConfig if c["mgr"] == "perception" else SensingEvaluationConfig
    rep = {"abstract": c, "dict": d, "frame_id": frame_id, "spec_accept": out[0]}
    root = os.path.join(_tmp(), "c%d" % (abs(hash(json.dumps(c, sort_keys=True))) % 10**9))
    try:
        cfg = cls([], frame_id, root, d)
        accepted = True
    except Exception as ex:
        accepted = False
        rep["raised"] = repr(ex)[:200]
    finally:
        shutil.rmtree(root, ignore_errors=True)
    mism = []
    if accepted and not out[0]:
        why = []
        if c["unknownKey"]:
            why.append("unknown-metric-parameter")
        if (c["x"] or c["y"]) and (c["dmax"] or c["dmin"]):
            why.append("both-range-kinds")
        if c.get("prefix", "ok") != "ok":
            why.append("label-prefix-" + c["prefix"])
        if not why:
            why.append("other")
        mism.append(("config-accepted:" + "+".join(why), "%s accepted %s" % (cls.__name__, d), rep))
    elif not accepted and out[0]:
        mism.append(("config-rejected", "%s rejected %s: %s" % (cls.__name__, d, rep.get("raised")), rep))
    elif accepted and c["mgr"] == "perception":
        n = c["n"]
        bad = []
        for k, v in cfg.filtering_params.items():
            if k.endswith("_list") or k in ("max_matchable_radii", "min_point_numbers"):
                if v is not None and (not isinstance(v, list) or len(v) != n):
                    bad.append(k)
        if c["auxShape"] != "list":
            key = {"min_point_numbers": "min_point_numbers", "confidence_threshold": "confidence_threshold_list", "max_matchable_radii": "max_matchable_radii",
                   "max_x_position": "max_x_position_list"}[c["aux"]]
            v = cfg.filtering_params.get(key)
            if not isinstance(v, list) or len(v) != n:
                bad.append(key + ":given-as-" + c["auxShape"])
        mc = cfg.metrics_config.detection_config or cfg.metrics_config.tracking_config
        if mc is not None:
            for k in ("center_distance_thresholds", "plane_distance_thresholds", "iou_2d_thresholds", "iou_3d_thresholds"):
                for row in getattr(mc, k):
                    if len(row) != n:
                        bad.append(k)
        if len(cfg.target_labels) != n:
            bad.append("target_labels")
        if bad:
            mism.append(("list-length", "per-label lists of wrong length: %s" % bad, rep))
    return mism


_EC = {}


def replay_frame(arg):
    from perception_eval.config import PerceptionEvaluationConfig
    from perception_eval.evaluation.result.perception_frame_config import CriticalObjectFilterConfig, PerceptionPassFailConfig

    f, out = arg
    key = f["is2d"]
    if key not in _EC:
        c = dict(mgr="perception", task="detection2d" if f["is2d"] else "detection", x=not f["is2d"], y=not f["is2d"], dmax=False, dmin=False, minPts=True,
                 unknownKey=False, nFrameIds=1, thr="ok", n=2)
        d, frame_id = concrete(c)
        try:
            _EC[key] = PerceptionEvaluationConfig([], frame_id, os.path.join(_tmp(), "f%d" % key), d)
        except Exception as ex:
            return [("config-rejected", "PerceptionEvaluationConfig rejected the valid configuration %s: %r" % (d, ex), {"dict": d})]
    ec = _EC[key]
    n = 2 + f["lenDelta"]
    lst = [10.0, 20.0, 30.0][:n]
    kw = {}
    if f["kind"] in ("xy", "both", "xy+dmax"):
        kw.update(max_x_position_list=lst, max_y_position_list=lst)
    if f["kind"] in ("ring", "both", "ring+x"):
        kw.update(max_distance_list=lst, min_distance_list=[1.0, 2.0, 3.0][:n])
    if f["kind"] in ("xy+dmax", "dmax-only"):
        kw.update(max_distance_list=lst)
    if f["kind"] in ("ring+x", "x-only"):
        kw.update(max_x_position_list=lst)
    rep = {"abstract": f, "kwargs": kw, "spec": list(out)}
    mism = []
    try:
        CriticalObjectFilterConfig(ec, ["car", "pedestrian"], **kw)
        acc = True
    except Exception as ex:
        acc = False
    if acc != out[0]:
        mism.append(("critical-config-%s%s" % ("accepted" if acc else "rejected", ":both-range-kinds" if f["kind"] in ("both", "xy+dmax", "ring+x") and acc else ""),
                     "CriticalObjectFilterConfig(%s) %s" % (kw, "accepted" if acc else "rejected"), rep))
    try:
        PerceptionPassFailConfig(ec, ["car", "pedestrian"], lst)
        acc = True
    except Exception:
        acc = False
    if acc != out[1]:
        mism.append(("passfail-config-%s" % ("accepted" if acc else "rejected"), "PerceptionPassFailConfig(%s) %s" % (lst, acc), rep))
    return mism


def run(ctx: Ctx):
    consts = dict(MaxLen="2" if ctx.quick else "3", Ns="1..4",
                  TaskSet='{"detection","tracking","detection2d","fp_validation","prediction","sensing","foo"}')
    res = T.run_model("MC_Config", "MCC_" + ctx.pid, consts, invariants=INV, model_values=(), tlc_kwargs=dict(dump=True, allow_violation=False, timeout=3000))
    ctx.add_tlc(res, "MC_Config %s" % consts, must_take=["Eval"])
    states, _ = load_dump(res.dump_path, must_contain='phase = "done"')
    os.remove(res.dump_path)
    thr_items, cfg_items, fr_items = [], [], []
    for st in states:
        if st["kind"] == "thr":
            thr_items.append((plain(st["tree"]), st["n"], st["nest"], plain(st["out"])))
        elif st["kind"] == "cfg":
            cfg_items.append((plain(st["cfgc"]), plain(st["out"])))
        else:
            fr_items.append((plain(st["cfgc"]), plain(st["out"])))
    for items, fn, tag in ((thr_items, replay_thr, "thr"), (cfg_items, replay_cfg, "cfg"), (fr_items, replay_frame, "frame")):
        outs = pmap(fn, items)
        for it, mism in zip(items, outs):
            ctx.traces += 1
            ctx.evaluations += 1
            for clause, msg, rep in mism:
                ctx.violation(clause, msg, rep)
        ctx.log("replayed %s: %d" % (tag, len(items)))
    for tree, n, nest, out in thr_items:
        if tree[0] == "list":
            ctx.nontrivial_count += 1
    ctx.nontrivial_count += sum(1 for c, o in cfg_items if c["task"] != "foo")
    ctx.sample({"threshold_tree": thr_items[len(thr_items) // 2][0], "n": thr_items[len(thr_items) // 2][1], "nest": thr_items[len(thr_items) // 2][2],
                "spec": thr_items[len(thr_items) // 2][3]})
    ctx.sample({"abstract_config": cfg_items[len(cfg_items) // 3][0], "spec_accept": cfg_items[len(cfg_items) // 3][1]})
    ctx.exhaustive = True
    ctx.rule = (
        "TLC enumerates every threshold tree of depth <= 2 with lists up to MaxLen over leaves {1, 2, non-numeric} x n in 1..3 x flat/nested, and "
        "every abstract configuration (manager x task x which range parameters are given x min points x unknown key x frame-id count x threshold "
        "shape) and frame configuration (range kind x list-length delta x 2-D/3-D); each state is realised as a Python value / dictionary (keys "
        "deleted, added or corrupted from a valid configuration) and fed to set_thresholds, PerceptionEvaluationConfig, SensingEvaluationConfig, "
        "CriticalObjectFilterConfig, PerceptionPassFailConfig; value / rejection / list lengths are compared. Non-trivial = list-shaped threshold "
        "specification or configuration with a supported task name; every enumerated case is distinct."
    )
    ctx.assumptions += ["any exception type counts as rejection", "non-numeric leaves are realised as a string, None and a dict in rotation"]
