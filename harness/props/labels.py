"""C14 — LabelConv.tla bound to LabelConverter / set_target_lists / PerceptionEvaluationConfig.target_labels (engines M, T)."""
from __future__ import annotations

import os
import random

from .. import tables
from .. import tlc as T
from .. import trace
from ..core import Ctx
from ..tlaval import to_tla
from ..trace import b


def doc_table_tla():
    rows = []
    for prefix, classif, merge, name, label in tables.doc_entries():
        rows.append('[prefix |-> "%s", classif |-> %s, merge |-> %s, name |-> %s, label |-> "%s"]' % (
            prefix, "TRUE" if classif else "FALSE", "TRUE" if merge else "FALSE", to_tla(tuple(b(name))), label))
    return "{" + ",\n ".join(rows) + "}"


def make(name, base, **kw):
    return T.make_model(base, name, dict(DocTable=doc_table_tla()), model_values=(), **kw)


def title(s):
    return s[:1].upper() + s[1:]


def run(ctx: Ctx):
    from perception_eval.common.evaluation_task import EvaluationTask
    from perception_eval.common.label import LabelConverter, set_target_lists

    # engine M: laws of the pinned documented tables
    T.make_model("LabelConv", "MC_Labels_gen", dict(DocTable=doc_table_tla()), model_values=(), init="MInit", next="MNext",
                 invariants=["DocFunctional", "DocMergeImage"],
                 extra_defs="VARIABLE mc\nMInit == mc \\in DocTable\nMNext == UNCHANGED mc")
    res = T.run_tlc("MC_Labels_gen", os.path.join(T.GEN, "MC_Labels_gen.cfg"), spec_dir=T.GEN, allow_violation=False, timeout=600)
    ctx.add_tlc(res, "documented label tables: functional + merge image")
    rng = random.Random(ctx.seed)
    events, info = [], {}
    tid = 0

    def add(ev, **inf):
        nonlocal tid
        tid += 1
        ev["tid"] = tid
        events.append(ev)
        info[tid] = inf

    ctxs = []
    for prefix in ("autoware", "traffic_light"):
        for task in EvaluationTask:
            if task == EvaluationTask.PREDICTION and False:
                continue
            for merge in (False, True):
                ctxs.append((prefix, task, merge))

    def conv_label(c, s):
        try:
            lab = c.convert_label(s).label
            # the label must be a member of the chosen family (the two families share value strings such as "unknown")
            return lab.value if isinstance(lab, c.label_type) else "other-family:%s" % lab.value
        except Exception as ex:
            return "raised"

    for prefix, task, merge in ctxs:
        for spelling in ("enum", "str"):
            try:
                conv = LabelConverter(task if spelling == "enum" else task.value, merge, prefix)
                plain = LabelConverter(task if spelling == "enum" else task.value, False, prefix)
            except Exception as ex:
                add(dict(ev="Convert", prefix=prefix, classif=0, merge=0, name=b("?"), registered=1, label="raised", label_upper="", label_lower="",
                         label_title="", via_name=""), what="LabelConverter(%s,%s,%s) raised %r" % (task, merge, prefix, ex))
                continue
            classif = 1 if task == EvaluationTask.CLASSIFICATION2D else 0
            base = dict(prefix=prefix, classif=classif, merge=1 if merge else 0)
            registered = [i.name for i in conv.label_infos]
            doc = [n for (p, cl, mg, n, lb) in tables.doc_entries() if p == prefix and cl == bool(classif) and mg == merge]
            members = [m.value for m in conv.label_type]
            rand = ["".join(rng.choice("abcxyz._ -01") for _ in range(rng.randint(1, 14))) for _ in range(8)] + ["", "Vehicle.Car ", "car\n", "CAR.", "unknown "]
            names = list(dict.fromkeys(registered + doc + members + rand))
            for n in names:
                try:
                    via = conv.convert_name(n)
                    via = via.value if isinstance(via, conv.label_type) else "other-family:%s" % via.value
                except Exception:
                    via = "raised"
                add(dict(ev="Convert", **base, name=b(n), registered=1 if n.lower() in registered else 0, label=conv_label(conv, n),
                         label_upper=conv_label(conv, n.upper()), label_lower=conv_label(conv, n.lower()), label_title=conv_label(conv, title(n)), via_name=via),
                    ctx=(prefix, task.value, merge, spelling), name=n)
                ctx.evaluations += 1
                if n.lower() in registered:
                    ctx.nontriv((prefix, task.value, merge, n))
                if spelling == "enum" and merge:
                    add(dict(ev="Merge", **base, name=b(n), plain=conv_label(plain, n), merged=conv_label(conv, n)),
                        ctx=(prefix, task.value, merge), name=n, kind="merge")
            # every label the converter can produce is the image of its own canonical name
            for lab in sorted({i.label.value for i in conv.label_infos}):
                add(dict(ev="Canonical", **base, label=lab, back=conv_label(conv, lab)), ctx=(prefix, task.value, merge, spelling), label=lab)
                ctx.nontriv(("canonical", prefix, task.value, merge, lab))
            # target lists
            for tl in ([], registered[:3], [n.upper() for n in registered[-3:]], ["car", "Pedestrian", "nonsense"], rng.sample(registered, min(5, len(registered)))):
                try:
                    res_ = [x.value if isinstance(x, conv.label_type) else "other-family:%s" % x.value for x in set_target_lists(tl, conv)]
                except Exception:
                    res_ = ["raised"]
                add(dict(ev="Targets", **base, names=[b(x) for x in tl], resolved=res_, each=[conv_label(conv, x) for x in tl], all_members=members),
                    ctx=(prefix, task.value, merge, spelling), targets=tl)
    # through the configuration object
    from .pipeline import eval_dict
    from perception_eval.config import PerceptionEvaluationConfig
    import tempfile
    import shutil

    tmp = tempfile.mkdtemp(prefix="verif_lbl_")
    try:
        for merge in (False, True):
            names = ["car", "Bus", "TRUCK", "motorbike", "pedestrian.adult", "animal"]
            d = eval_dict(dict(targets=names, policy="DEFAULT", radius=[], cd=[2] * 6, pd=[],
                               mfilter=dict(xmax=[9] * 6, ymax=[9] * 6, dmax=[], dmin=[], minPts=[0] * 6, conf=[], uuids=False, ignoreAttr=False)))
            d["merge_similar_labels"] = merge
            cfg = PerceptionEvaluationConfig([], "base_link", os.path.join(tmp, "r%d" % merge), d)
            conv = cfg.label_converter
            add(dict(ev="Targets", prefix="autoware", classif=0, merge=1 if merge else 0, names=[b(x) for x in names],
                     resolved=[x.value for x in cfg.target_labels], each=[conv_label(conv, x) for x in names], all_members=[]),
                ctx=("PerceptionEvaluationConfig", merge), targets=names)
        # one configuration per (label family, task, merging) built one after the other in this process: each must resolve names with ITS
        # family / task / merge option, whatever configurations were built before
        from perception_eval.common.evaluation_task import EvaluationTask as _ET

        seq = [("traffic_light", "detection2d", False), ("traffic_light", "classification2d", False), ("autoware", "detection2d", True), ("traffic_light", "detection2d", True),
               ("autoware", "classification2d", False), ("traffic_light", "classification2d", True), ("autoware", "detection", True), ("autoware", "tracking", False),
               ("traffic_light", "tracking2d", False), ("autoware", "detection2d", False)]
        # ... and whatever its OTHER options say (label policy in both spellings of the option, label counting): they are no part of the mapping
        others = [{}, {"matching_label_policy": "allow_any"}, {"matching_label_policy": "ALLOW_UNKNOWN"}, {"matching_label_policy": "default", "count_label_number": False},
                  {"allow_matching_unknown": True}]
        seq = [(p_, t_, m_, o_) for (p_, t_, m_) in seq for o_ in others]
        for k_, (prefix, task, merge, other) in enumerate(seq):
            names = ["car", "Bus", "TRUCK", "motorbike", "pedestrian.adult", "animal"] if prefix == "autoware" else ["green", "RED", "Yellow", "traffic_light", "unknown", "red_left"]
            d = {"evaluation_task": task, "target_labels": names, "label_prefix": prefix, "merge_similar_labels": merge, "center_distance_thresholds": [1.0], "iou_2d_thresholds": [0.5]}
            d.update(other)
            is2d = task.endswith("2d")
            if not is2d:
                d.update({"max_x_position": 100.0, "max_y_position": 100.0, "min_point_numbers": [0] * len(names), "plane_distance_thresholds": [2.0], "iou_3d_thresholds": [0.5]})
            try:
                cfg = PerceptionEvaluationConfig([], "cam_front" if is2d else "base_link", os.path.join(tmp, "s%d" % k_), d)
            except Exception as ex:
                add(dict(ev="Targets", prefix=prefix, classif=1 if task == "classification2d" else 0, merge=1 if merge else 0, names=[b(x) for x in names], resolved=["raised"],
                         each=["raised"] * len(names), all_members=[]), ctx=("PerceptionEvaluationConfig", prefix, task, merge, repr(ex)[:120]), targets=names)
                continue
            conv = cfg.label_converter
            add(dict(ev="Targets", prefix=prefix, classif=1 if task == "classification2d" else 0, merge=1 if merge else 0, names=[b(x) for x in names],
                     resolved=[x.value if isinstance(x, conv.label_type) else "other-family:%s" % x.value for x in cfg.target_labels], each=[conv_label(conv, x) for x in names],
                     all_members=[]), ctx=("PerceptionEvaluationConfig", prefix, task, merge), targets=names)
            # the frame-level critical filter resolves ITS names element by element too (one entry per name, duplicates kept: the per-label
            # threshold lists are indexed by position)
            try:
                from perception_eval.evaluation.result.perception_frame_config import CriticalObjectFilterConfig as _CF

                names2 = ["truck", "car", "pedestrian", "BUS"] if prefix == "autoware" else ["green", "red", "GREEN"]
                kw_ = {} if is2d else dict(max_x_position_list=[80.0, 50.0, 10.0, 30.0][: len(names2)], max_y_position_list=[80.0, 50.0, 10.0, 30.0][: len(names2)])
                cf_ = _CF(cfg, names2, **kw_)
                fp_ = cf_.filtering_params["target_labels"]
                add(dict(ev="Targets", prefix=prefix, classif=1 if task == "classification2d" else 0, merge=1 if merge else 0, names=[b(x) for x in names2],
                         resolved=[x.value if isinstance(x, conv.label_type) else "other-family:%s" % x.value for x in fp_], each=[conv_label(conv, x) for x in names2],
                         all_members=[]), ctx=("CriticalObjectFilterConfig.filtering_params", prefix, task, merge), targets=names2)
            except Exception as ex:
                add(dict(ev="Targets", prefix=prefix, classif=1 if task == "classification2d" else 0, merge=1 if merge else 0, names=[b("x")], resolved=["raised"], each=["raised"],
                         all_members=[]), ctx=("CriticalObjectFilterConfig", prefix, task, merge, repr(ex)[:160]), targets=[])
            # ... and the configuration's own converter is the converter of its family / task / merge option
            fresh = LabelConverter(_ET.from_value(task), merge, prefix)
            reg_ = [i.name for i in fresh.label_infos]
            for n_ in names + [m.value for m in fresh.label_type][:6]:
                try:
                    via_ = conv.convert_name(n_)
                    via_ = via_.value if isinstance(via_, fresh.label_type) else "other-family:%s" % via_.value
                except Exception:
                    via_ = "raised"
                add(dict(ev="Convert", prefix=prefix, classif=1 if task == "classification2d" else 0, merge=1 if merge else 0, name=b(n_), registered=1 if n_.lower() in reg_ else 0,
                         label=conv_label(conv, n_), label_upper=conv_label(conv, n_.upper()), label_lower=conv_label(conv, n_.lower()), label_title=conv_label(conv, title(n_)),
                         via_name=via_), ctx=("PerceptionEvaluationConfig.label_converter", prefix, task, merge), name=n_)
    finally:
        shutil.rmtree(tmp, ignore_errors=True)
    make("Trace_Labels_gen", "Trace_Labels", init="TraceInit", next="TraceNext", postcondition="Consumed")
    rej = trace.validate(ctx, "Trace_Labels_gen", events, cfg=os.path.join(T.GEN, "Trace_Labels_gen.cfg"), spec_dir=T.GEN)
    ctx.traces += len(events)
    for t_, line, clause in rej:
        i = info[t_]
        detail = ""
        if clause in ("documented-name-maps-elsewhere", "label-not-image-of-its-canonical-name", "merge-is-not-merged-image"):
            detail = ":" + str(i.get("name") or i.get("label"))[:40]
        ctx.violation(clause + detail, "%s -> %s" % (i, clause), i)
    ctx.sample(info[max(1, tid // 3)])
    ctx.sample(info[tid])
    ctx.exhaustive = True
    ctx.rule = (
        "for both label families x every evaluation task (enum and string spelling) x merge on/off: every name the converter registers, every "
        "documented name, every enum member's canonical name and random strings are converted in four case variants through convert_label and "
        "convert_name; the merged/unmerged pair is recorded; every producible label's canonical name is converted back; target lists are resolved "
        "through set_target_lists and PerceptionEvaluationConfig. TLC validates each event against the pinned documented tables and the laws "
        "(total, case-insensitive, canonical, unregistered -> unknown, merge image, targets line up). Non-trivial = registered name / canonical check."
    )
    ctx.assumptions += ["names registered by the code but absent from docs/en/perception/label.md are subject to the laws only"]
