"""C01 / C02 — Matching.tla bound to get_object_results (engines M, R, T)."""
from __future__ import annotations

import json
import math
import os
import random

from .. import tlc as T
from ..core import Ctx, pmap
from ..tlaval import load_dump

INV_C01 = ["OneToOne", "OnlyValidPairs", "NothingInvented", "Complete", "FpvalDropsOnlyUnmatchable"]
INV_C02 = ["NoBlockingCompat", "NoBlockingIncompat", "ExactWhenNoTies", "ReachedIsOutcome"]
ACTIONS = ["SBegin", "SStage1", "SEndStage1", "SStage2", "SFinish"]

C01_CLAUSES = {
    "object-not-in-input",
    "duplicate-result",
    "not-one-to-one",
    "invalid-pair-matched",
    "match-without-objects",
    "fpval-kept-unmatched-estimate",
    "estimate-lost-or-leftover-wrong",
    "caller-list-mutated",
    "raised",
}


def S(*xs):
    return "{" + ", ".join(xs) + "}"


def q(s):
    return '"%s"' % s


EL = S(q("car"), q("pedestrian"), q("unknown"))
GL = S(q("car"), q("pedestrian"), q("bus"), q("false_positive"))
T2 = '<<"car", "pedestrian">>'
T3 = '<<"car", "pedestrian", "unknown">>'
POL = S(q("DEFAULT"), q("ALLOW_UNKNOWN"), q("ALLOW_ANY"))
DIST_MODES = S(q("center"), q("plane"))
IOU_MODES = S(q("iou2d"), q("iou3d"))


def slices(tier):
    """name -> (constants, kinds) ; kinds = object renderings the slice is replayed with"""
    big = tier == "thorough"
    sl = {}
    # A: geometry, one label, contested ground truths, ties; distance modes with/without radius
    sl["A_dist"] = (
        dict(MaxE="3" if big else "2", MaxG="3" if big else "2", PX="2", PY="1", ELabels=S(q("car")), GLabels=S(q("car")), Frames="{0}",
             PolicySet=S(q("DEFAULT")), TargetSets=S('<<"car">>'), RadiusSets="{<<>>, <<<<3,2>>>>, <<<<2,1>>>>}", ModeSet=DIST_MODES,
             FpvalSet="{FALSE}", Sample="0"),
        ("3d", "2d", "3d_derived", "2d_tl", "3d_frames", "2d_pos"),
    )
    sl["A_iou"] = (
        dict(MaxE="2", MaxG="3" if big else "2", PX="3" if big else "2", PY="1", ELabels=S(q("car")), GLabels=S(q("car")), Frames="{0}",
             PolicySet=S(q("DEFAULT")), TargetSets=S('<<"car">>'), RadiusSets="{<<>>, <<<<1,5>>>>, <<<<1,2>>>>, <<<<0,1>>>>}", ModeSet=IOU_MODES,
             FpvalSet="{FALSE}", Sample="0"),
        ("3d", "2d", "3d_derived"),
    )
    # B: labels x policy on a line of positions
    sl["B_labels"] = (
        dict(MaxE="2", MaxG="2", PX="2", PY="0", ELabels=EL if big else S(q("car"), q("unknown")), GLabels=GL if big else S(q("car"), q("pedestrian"), q("false_positive")), Frames="{0}", PolicySet=POL,
             TargetSets=S(T2, T3), RadiusSets="{<<>>, <<<<3,2>>, <<5,2>>>>, <<<<3,2>>, <<1,2>>, <<5,2>>>>}", ModeSet=S(q("center")),
             FpvalSet="{FALSE}", Sample="0"),
        ("3d",),
    )
    # C: frames x fp-validation x empty lists
    sl["C_frames"] = (
        dict(MaxE="2", MaxG="2", PX="1", PY="0", ELabels=S(q("car"), q("unknown")), GLabels=S(q("car"), q("false_positive")),
             Frames="{0, 1}", PolicySet=S(q("DEFAULT"), q("ALLOW_UNKNOWN")) if big else S(q("DEFAULT")), TargetSets=S(T2), RadiusSets="{<<>>, <<<<3,2>>, <<3,2>>>>}",
             ModeSet=S(q("center")), FpvalSet="{TRUE, FALSE}", Sample="0"),
        ("3d", "2d", "2d_tl", "3d_frames", "2d_pos"),
    )
    # D: random subset of the big product space (3x3, 2-D lattice, all labels, policies, modes)
    n = "10000" if big else "600"
    sl["D_dist_sample"] = (
        dict(MaxE="3", MaxG="3", PX="2", PY="2", ELabels=EL, GLabels=GL, Frames="{0}", PolicySet=POL, TargetSets=S(T2, T3),
             RadiusSets="{<<>>, <<<<3,2>>, <<5,2>>>>, <<<<5,2>>, <<3,2>>, <<7,2>>>>}", ModeSet=DIST_MODES, FpvalSet="{TRUE, FALSE}", Sample=n),
        ("3d",),
    )
    sl["D_iou_sample"] = (
        dict(MaxE="3", MaxG="3", PX="3", PY="2", ELabels=EL, GLabels=GL, Frames="{0}", PolicySet=POL, TargetSets=S(T2, T3),
             RadiusSets="{<<>>, <<<<1,5>>, <<1,2>>>>, <<<<1,2>>, <<1,10>>, <<1,5>>>>}", ModeSet=IOU_MODES, FpvalSet="{TRUE, FALSE}", Sample=n),
        ("3d",),
    )
    return sl


# --------------------------------------------------------------------------- replay (engine R)

def _fs(x):
    return frozenset(x)


def scene_key(sc):
    return json.dumps(sc, sort_keys=True, default=list)


def collect(dump_path):
    """terminated states grouped by scene -> {scene_json: (scene, set of (matched frozenset, leftover frozenset))}"""
    groups = {}
    states, nstates = load_dump(dump_path, must_contain='stage = "done"')
    for st in states:
        if st["stage"] != "done":
            continue
        sc = st["scene"]
        k = repr(sorted(sc.items()))
        matched = frozenset((p[0], p[1]) for p in st["res"] if isinstance(p[1], int))
        left = frozenset(p[0] for p in st["res"] if not isinstance(p[1], int))
        groups.setdefault(k, (sc, set()))[1].add((matched, left))
    return groups, nstates


# traffic-light rendering of the abstract labels for 2-D ROI objects (traffic-light detection with boxes is matched geometrically, like any other)
TL_OF = {"car": "green", "pedestrian": "red", "bus": "yellow", "bicycle": "red_left", "unknown": "unknown", "false_positive": "false_positive"}


def render(sc, kind):
    """real objects for scene `sc`"""
    from ..build import obj2d, obj3d

    if kind == "3d_derived":
        from ..build import derive

        e_, g_ = render(sc, "3d")
        return [derive(o) for o in e_], [derive(o, 1) for o in g_]
    if kind == "3d_frames":
        from perception_eval.common.schema import FrameID

        members = list(FrameID)
        h_ = (sum(sc["epos"][i][0] * 3 + sc["epos"][i][1] for i in range(sc["ne"])) + 7 * sc["ne"] + 5 * sc["ng"] + len(sc["radius"])) % len(members)
        pick = {0: members[h_], 1: members[(h_ + 7) % len(members)]}
        e_, g_ = render(sc, "3d")
        for o, f in list(zip(e_, sc["efr"])) + list(zip(g_, sc["gfr"])):
            o.frame_id = pick[f]
        return e_, g_
    if kind == "2d_pos":
        # 2-D ROI objects that also carry the optional 3-D position (all within a metre of each other): the matcher is about the ROIs
        e_, g_ = render(sc, "2d")
        for k_, o in enumerate(e_ + g_):
            o.set_position((10.0 + 0.1 * k_, -2.0, 0.5))
        return e_, g_
    ests, gts = [], []
    for i in range(sc["ne"]):
        x, y = sc["epos"][i]
        if kind == "3d":
            o = obj3d((x, y, 0), label=sc["elab"][i], score=0.5 + 0.01 * i, frame="map" if sc["efr"][i] == 1 else "base_link",
                      ego=_EGO0, uuid="e%d" % i, vid=i + 1)
        else:
            tl = kind == "2d_tl"
            # centre-distance mode: ROIs of different, non-square extents whose CENTRES sit on the lattice (the score is about the centres)
            off, sz = ((x - 3, y - 1), (6, 2)) if sc["mode"] == "center" else ((x, y), (2, 2))
            o = obj2d(off, size=sz, label=TL_OF[sc["elab"][i]] if tl else sc["elab"][i], score=0.5 + 0.01 * i, cam=sc["efr"][i], uuid="e%d" % i, vid=i + 1, tl=tl)
        ests.append(o)
    for j in range(sc["ng"]):
        x, y = sc["gpos"][j]
        if kind == "3d":
            o = obj3d((x, y, 0), label=sc["glab"][j], score=1.0, frame="map" if sc["gfr"][j] == 1 else "base_link", ego=_EGO0,
                      uuid="g%d" % j, vid=j + 1)
        else:
            tl = kind == "2d_tl"
            off, sz = ((x - 1, y - 4), (2, 8)) if sc["mode"] == "center" else ((x, y), (2, 2))
            o = obj2d(off, size=sz, label=TL_OF[sc["glab"][j]] if tl else sc["glab"][j], score=1.0, cam=sc["gfr"][j], uuid="g%d" % j, vid=j + 1, tl=tl)
        gts.append(o)
    return ests, gts


_EGO0 = None


def _init_worker():
    global _EGO0
    from ..build import EgoPose

    _EGO0 = EgoPose()


def call_matcher(sc, kind, ests, gts):
    from perception_eval.common.evaluation_task import EvaluationTask
    from perception_eval.evaluation.result.object_result import get_object_results

    from ..build import AW, MODES, POLICIES

    if kind.startswith("3d"):
        task = EvaluationTask.FP_VALIDATION if sc["fpval"] else EvaluationTask.DETECTION
    else:
        task = EvaluationTask.FP_VALIDATION2D if sc["fpval"] else EvaluationTask.DETECTION2D
    from ..build import TL

    targets = [TL[TL_OF[t]] for t in sc["targets"]] if kind == "2d_tl" else [AW[t] for t in sc["targets"]]
    tf = _EGO0.transforms() if kind.startswith("3d") else None
    if kind == "3d_frames":
        # every frame that occurs is registered against base_link (identity: the frames only have to be told apart)
        from pyquaternion import Quaternion

        from perception_eval.common.schema import FrameID
        from perception_eval.common.transform import HomogeneousMatrix, TransformDict

        used = {o.frame_id for o in list(ests) + list(gts)} - {FrameID.BASE_LINK}
        tf = TransformDict(_EGO0.matrices() + [HomogeneousMatrix((0.0, 0.0, 0.0), Quaternion(), src=f, dst=FrameID.BASE_LINK) for f in used if f != FrameID.MAP])
    thr = [n / d for (n, d) in sc["radius"]] if sc["radius"] else None
    # per-label sequences of either kind (a list, or the tuple a caller gets from unpacking / a frozen configuration)
    if (len(ests) + 2 * len(gts)) % 3 == 1:
        thr = tuple(thr) if thr is not None else None
    elif (len(ests) + 2 * len(gts)) % 3 == 2:
        targets = tuple(targets)
        thr = tuple(thr) if thr is not None else None
    return get_object_results(
        evaluation_task=task,
        estimated_objects=ests,
        ground_truth_objects=gts,
        target_labels=targets,
        matching_label_policy=POLICIES[sc["policy"]],
        matching_mode=MODES[sc["mode"]],
        matchable_thresholds=thr,
        transforms=tf,
    )


def project(results):
    from ..build import vid

    return [(vid(r.estimated_object), vid(r.ground_truth_object) if r.ground_truth_object is not None else None) for r in results]


def replay_one(arg):
    """returns list of (clause, msg, replay) mismatches for one (scene, allowed, kinds)"""
    sc, allowed, kinds = arg
    if _EGO0 is None:
        _init_worker()
    out = []
    n = 0
    for kind in kinds:
        if kind.startswith("2d") and sc["mode"] in ("plane", "iou3d"):
            continue
        if kind == "3d_frames" and sc["mode"] != "center":
            continue
        if kind.startswith("3d") and sc["mode"] != "center" and any(f == 1 for f in list(sc["efr"])[: sc["ne"]] + list(sc["gfr"])[: sc["ng"]]):
            continue
        n += 1
        ests, gts = render(sc, kind)
        ests0, gts0 = list(ests), list(gts)
        rep = {"scene": sc, "kind": kind, "allowed": [[sorted(m), sorted(lf)] for m, lf in allowed]}
        try:
            results = call_matcher(sc, kind, ests, gts)
        except Exception as ex:  # the statement promises a result for every input
            sig = "raised:%s:%s" % (type(ex).__name__, "fpval-empty-gt" if (sc["fpval"] and sc["ng"] == 0 and sc["ne"] > 0) else "other")
            out.append(("raised", sig, "get_object_results raised %r" % (ex,), rep))
            continue
        pr = project(results)
        rep["impl"] = pr
        if len(ests) != len(ests0) or any(a is not b for a, b in zip(ests, ests0)) or len(gts) != len(gts0) or any(
            a is not b for a, b in zip(gts, gts0)
        ):
            out.append(("caller-list-mutated", "caller-list-mutated", "input lists changed by the call", rep))
        matched = frozenset((e, g) for e, g in pr if g is not None)
        left = frozenset(e for e, g in pr if g is None)
        es = [e for e, _ in pr]
        gs = [g for _, g in pr if g is not None]
        if len(set(es)) != len(es) or len(set(gs)) != len(gs):
            out.append(("not-one-to-one", "not-one-to-one", "object used twice: %s" % pr, rep))
        elif (matched, left) not in allowed:
            # classify: is the matched set at least an allowed matched set?
            if matched in {m for m, _ in allowed}:
                out.append(("estimate-lost-or-leftover-wrong", "leftover-mismatch", "matched ok, leftovers %s not as specified" % sorted(left), rep))
            else:
                bad = [(e, g) for e, g in matched if not scene_valid(sc, e, g)]
                if bad:
                    # a pair the statement forbids outright (other frame, or not strictly inside the radius / above the IoU threshold of the
                    # ground truth's label): C01's clause, whatever the rest of the assignment looks like
                    out.append(("invalid-pair-matched", "invalid-pair-matched", "pairs %s are not matchable in this scene; impl %s" % (sorted(bad), pr), rep))
                else:
                    out.append(("not-a-greedy-two-stage-outcome", "matching-mismatch", "impl %s not among spec outcomes" % pr, rep))
    return n, out


def scene_valid(sc, e, g):
    """SceneValid of MC_MatchingScene.tla (1-based ids): same frame and strictly within the threshold of the ground truth's label"""
    if sc["efr"][e - 1] != sc["gfr"][g - 1]:
        return False
    if not sc["radius"]:
        return True
    gl = sc["glab"][g - 1]
    targets = list(sc["targets"])
    if gl not in targets:
        return True
    num, den = sc["radius"][targets.index(gl)]
    (ex, ey), (gx, gy) = sc["epos"][e - 1], sc["gpos"][g - 1]
    if sc["mode"] in ("iou2d", "iou3d"):
        inter = max(0, 2 - abs(ex - gx)) * max(0, 2 - abs(ey - gy))
        return inter * den > num * (8 - inter)
    return ((ex - gx) ** 2 + (ey - gy) ** 2) * den * den < num * num


def _nontrivial(sc, allowed):
    feats = []
    if len(allowed) > 1:
        feats.append("ties")
    if sc["ne"] > sc["ng"] > 0 or sc["ng"] > sc["ne"] > 0:
        feats.append("contested")
    if sc["radius"]:
        feats.append("radius")
    if "false_positive" in list(sc["glab"])[: sc["ng"]]:
        feats.append("fp-gt")
    if "unknown" in list(sc["elab"])[: sc["ne"]]:
        feats.append("unknown-est")
    return feats


# --------------------------------------------------------------------------- traces (engine T)

def _rand_scene(rng: random.Random, kind: str):
    """random float scene -> (ests, gts, params) with real objects"""
    from ..build import AW, EgoPose, obj2d, obj3d

    ne = rng.choice([0, 1, 2, 3, 5, 8, 12, 20, 30]) if rng.random() < 0.9 else rng.randint(0, 30)
    ng = rng.choice([0, 1, 2, 3, 5, 8, 12, 20, 30]) if rng.random() < 0.9 else rng.randint(0, 30)
    elabs = ["car", "pedestrian", "unknown", "bicycle", "bus"]
    glabs = ["car", "pedestrian", "bicycle", "bus", "false_positive", "unknown"]
    targets = rng.choice([["car", "pedestrian"], ["car", "pedestrian", "bicycle"], ["car", "pedestrian", "bicycle", "unknown"], ["car"]])
    policy = rng.choice(["DEFAULT", "ALLOW_UNKNOWN", "ALLOW_ANY"])
    spread = rng.choice([3.0, 10.0, 40.0])
    nfr = rng.choice([1, 1, 2, 3])
    ego = EgoPose()
    ests, gts = [], []
    dup = rng.random() < 0.2  # exact duplicates of positions -> exact score ties
    twins = rng.random() < 0.3
    twin_yaw, gtwin_yaw = [], []
    for i in range(ne):
        if kind == "3d":
            p = (rng.uniform(-spread, spread), rng.uniform(-spread, spread), rng.uniform(-1, 1))
            if dup and ests and rng.random() < 0.3:
                p = tuple(ests[-1].state.position)
            yaw_, lab_ = rng.uniform(-math.pi, math.pi), rng.choice(elabs)
            if twins and ests and rng.random() < 0.4:
                # concentric twin: same centre, heading, label and time as the previous estimate, another extent / confidence / maybe frame
                # (two distinct objects that compare equal under DynamicObject.__eq__)
                p, yaw_, lab_ = tuple(ests[-1].state.position), twin_yaw[-1], ests[-1].semantic_label.label.value
            twin_yaw.append(yaw_)
            o = obj3d(p, yaw=yaw_, size=(rng.uniform(0.5, 3), rng.uniform(0.5, 6), rng.uniform(1, 3)),
                      label=lab_, score=rng.random(), uuid="e%d" % i, vid=i + 1,
                      frame="map" if (nfr > 1 and rng.random() < 0.3) else "base_link", ego=ego)
        else:
            o = obj2d((rng.randint(0, int(spread * 10)), rng.randint(0, int(spread * 10))), size=(rng.randint(1, 60), rng.randint(1, 60)),
                      label=rng.choice(elabs), score=rng.random(), uuid="e%d" % i, vid=i + 1, cam=rng.randrange(nfr))
        ests.append(o)
    for j in range(ng):
        if kind == "3d":
            if ests and rng.random() < 0.6:
                b = rng.choice(ests).state.position
                p = (b[0] + rng.gauss(0, 1.0), b[1] + rng.gauss(0, 1.0), b[2] + rng.gauss(0, 0.3))
            else:
                p = (rng.uniform(-spread, spread), rng.uniform(-spread, spread), rng.uniform(-1, 1))
            yaw_, lab_ = rng.uniform(-math.pi, math.pi), rng.choice(glabs)
            if twins and gts and rng.random() < 0.4:
                p, yaw_, lab_ = tuple(gts[-1].state.position), gtwin_yaw[-1], gts[-1].semantic_label.label.value
            gtwin_yaw.append(yaw_)
            o = obj3d(p, yaw=yaw_, size=(rng.uniform(0.5, 3), rng.uniform(0.5, 6), rng.uniform(1, 3)),
                      label=lab_, score=1.0, uuid="g%d" % j, vid=j + 1,
                      frame="map" if (nfr > 1 and rng.random() < 0.3) else "base_link", ego=ego)
        else:
            if ests and rng.random() < 0.6:
                b = rng.choice(ests).roi
                off = (max(0, b.offset[0] + rng.randint(-20, 20)), max(0, b.offset[1] + rng.randint(-20, 20)))
            else:
                off = (rng.randint(0, int(spread * 10)), rng.randint(0, int(spread * 10)))
            o = obj2d(off, size=(rng.randint(1, 60), rng.randint(1, 60)), label=rng.choice(glabs), score=1.0, uuid="g%d" % j, vid=j + 1,
                      cam=rng.randrange(nfr))
        gts.append(o)
    if kind == "3d":
        # plane distance needs base_link ground truth unless transforms are given (they are: identity ego)
        mode = rng.choice(["center", "plane", "iou2d", "iou3d"])
    else:
        mode = rng.choice(["center", "iou2d"])
    if rng.random() < 0.35:
        thr = None
    elif mode in ("iou2d", "iou3d"):
        thr = [rng.choice([0.0, 0.01, 0.1, 0.3, 0.5]) for _ in targets]
    else:
        thr = [rng.choice([0.5, 1.0, 2.0, 5.0, 20.0]) * (10 if kind == "2d" else 1) for _ in targets]
    fpval = rng.random() < 0.25
    return ests, gts, dict(kind=kind, mode=mode, targets=targets, policy=policy, thr=thr, fpval=fpval, ego=ego)


def _independent_table(ests, gts, prm):
    """score / validity per pair, computed by the harness (labels and frame ids read from the objects; the pair score is
    the library's MatchingMethod.value -- its correctness is C06's business -- except centre distance which is recomputed)."""
    from perception_eval.evaluation.matching import CenterDistanceMatching, IOU2dMatching, IOU3dMatching, PlaneDistanceMatching

    from ..build import AW

    mode = prm["mode"]
    tf = prm["ego"].transforms() if prm["kind"] == "3d" else None
    tl = [AW[t] for t in prm["targets"]]
    raw = []
    for e in ests:
        row = []
        for g in gts:
            if mode == "center":
                if prm["kind"] == "3d":
                    v = math.dist(e.state.position, g.state.position)
                else:
                    v = math.dist(e.roi.center, g.roi.center)
            elif mode == "plane":
                v = PlaneDistanceMatching(e, g, transforms=tf).value
            elif mode == "iou2d":
                v = IOU2dMatching(e, g).value
            else:
                v = IOU3dMatching(e, g).value
            row.append(v)
        raw.append(row)
    # boundary margin: drop scenes where a threshold decision is within 1e-9 of equality
    valid = []
    for i, e in enumerate(ests):
        row = []
        for j, g in enumerate(gts):
            same = e.frame_id == g.frame_id
            t = None
            if prm["thr"] is not None and g.semantic_label.label in tl:
                t = prm["thr"][tl.index(g.semantic_label.label)]
            if t is None:
                ok = True
            elif mode in ("iou2d", "iou3d"):
                if abs(raw[i][j] - t) < 1e-9:
                    return None
                ok = raw[i][j] > t
            else:
                if abs(raw[i][j] - t) < 1e-9:
                    return None
                ok = raw[i][j] < t
            row.append(1 if (same and ok) else 0)
        valid.append(row)
    vals = sorted({raw[i][j] for i in range(len(ests)) for j in range(len(gts))})
    # scores closer than 1e-9 but not equal would make the rank depend on rounding: skip such scenes
    for a, b in zip(vals, vals[1:]):
        if b - a < 1e-9:
            return None
    rank = {v: k for k, v in enumerate(vals)}
    score = [[rank[raw[i][j]] for j in range(len(gts))] for i in range(len(ests))]
    return score, valid


def gen_traces(seed, n, path):
    from perception_eval.common.evaluation_task import EvaluationTask
    from perception_eval.evaluation.result.object_result import get_object_results

    from ..build import AW, MODES, POLICIES

    rng = random.Random(seed)
    meta = {}
    tid = 0
    skipped = 0
    with open(path, "w") as f:
        while tid < n:
            kind = "3d" if rng.random() < 0.7 else "2d"
            ests, gts, prm = _rand_scene(rng, kind)
            tab = _independent_table(ests, gts, prm)
            if tab is None:
                skipped += 1
                continue
            score, valid = tab
            tid += 1
            task = {("3d", False): EvaluationTask.DETECTION, ("3d", True): EvaluationTask.FP_VALIDATION,
                    ("2d", False): EvaluationTask.DETECTION2D, ("2d", True): EvaluationTask.FP_VALIDATION2D}[(kind, prm["fpval"])]
            ests0, gts0 = list(ests), list(gts)
            begin = dict(tid=tid, ev="Begin", ne=len(ests), ng=len(gts), score=score, valid=valid,
                         elab=[str(o.semantic_label.label.value) for o in ests], glab=[str(o.semantic_label.label.value) for o in gts],
                         policy=prm["policy"], maximize=1 if prm["mode"] in ("iou2d", "iou3d") else 0, fpval=1 if prm["fpval"] else 0)
            info = dict(kind=kind, mode=prm["mode"], targets=prm["targets"], thr=prm["thr"], policy=prm["policy"], fpval=prm["fpval"],
                        ne=len(ests), ng=len(gts))
            meta[tid] = info
            try:
                results = get_object_results(task, ests, gts, [AW[t] for t in prm["targets"]], POLICIES[prm["policy"]], MODES[prm["mode"]],
                                             prm["thr"], prm["ego"].transforms() if kind == "3d" else None)
            except Exception as ex:
                info["raised"] = repr(ex)
                info["fpval_empty_gt"] = bool(prm["fpval"] and not gts and ests)
                f.write(json.dumps(begin) + "\n")
                f.write(json.dumps(dict(tid=tid, ev="Raised")) + "\n")
                continue
            pr = project(results)
            info["mutated"] = not (len(ests) == len(ests0) and all(a is b for a, b in zip(ests, ests0)) and len(gts) == len(gts0)
                                   and all(a is b for a, b in zip(gts, gts0)))
            info["pairs"] = pr
            f.write(json.dumps(begin) + "\n")
            f.write(json.dumps(dict(tid=tid, ev="Result", pairs=[[e, g or 0] for e, g in pr])) + "\n")
    return meta, skipped


def validate_traces(ctx: Ctx, path, meta, tag):
    """run Trace_Matching on the batch; returns list of (tid, clause)"""
    import re

    rejected = []
    removed = set()
    for attempt in range(4):
        res = T.run_tlc("Trace_Matching", workers=1, env={"TRACE_FILE": path}, tag=tag, coverage=False, heap="6g")
        ctx.states += res.distinct
        ctx.transitions += res.generated
        for m in re.finditer(r'<<"REJECT", (\d+), (\d+), "([^"]+)">>', res.output):
            rejected.append((int(m.group(1)), m.group(3)))
        if not res.violated:
            break
        # an invariant failed along a trace: identify tid from the error trace, drop that trace, re-run the rest
        tid = None
        m = re.findall(r"/\\ tid = (\d+)", "\n".join(res.error_trace))
        if m:
            tid = int(m[-1])
        if tid is None or tid in removed or "Postcondition" in res.violated and len(res.violated) == 1:
            raise T.TlcError("trace validation failed without identifiable trace: %s\n%s" % (res.violated, res.output[-2000:]))
        rejected.append((tid, "invariant:" + ",".join(v for v in res.violated if v != "Postcondition")))
        removed.add(tid)
        lines = [ln for ln in open(path) if json.loads(ln)["tid"] != tid]
        with open(path, "w") as f:
            f.writelines(lines)
    return rejected


# --------------------------------------------------------------------------- driver

def run(ctx: Ctx):
    pid = ctx.pid
    mine = (lambda clause: clause in C01_CLAUSES) if pid == "C01" else (lambda clause: clause not in C01_CLAUSES)
    invs = INV_C01 + INV_C02
    # ---- engine M: abstract exhaustive
    if ctx.quick:
        consts = dict(MaxE="2", MaxG="2", K="1")
    else:
        consts = dict(MaxE="2", MaxG="3", K="1")
    lemma = ["ExplainsIffOutcome"] if (pid == "C02" and ctx.quick) else []
    res = T.run_model("MC_Matching", "MCM_" + pid, consts, invariants=invs + lemma, properties=["InputsUntouched", "StageOrder"],
                      tlc_kwargs=dict(allow_violation=False, timeout=3000))
    ctx.add_tlc(res, "MC_Matching %s" % consts, must_take=["Begin", "DoStage1", "EndStage1", "DoStage2", "Finish"])
    if not ctx.quick:
        # the lemma binding the trace acceptance predicate to reachability, on the 2x2 tables with three score levels
        lem = T.run_model("MC_Matching", "MCM_lemma_" + pid, dict(MaxE="2", MaxG="2", K="2"), invariants=["ExplainsIffOutcome", "ReachedIsOutcome"],
                          tlc_kwargs=dict(allow_violation=False, timeout=3000))
        ctx.add_tlc(lem, "MC_Matching lemma ExplainsIffOutcome 2x2 K=2")
    # ---- engines M + R: lattice scenes
    total_groups = 0
    for name, (consts, kinds) in slices(ctx.tier).items():
        c = dict(consts)
        res = T.run_model("MC_MatchingScene", "MS_%s_%s" % (pid, name), c, next="SNext", invariants=invs,
                          tlc_kwargs=dict(dump=True, allow_violation=False, seed=ctx.seed, timeout=3000))
        ctx.add_tlc(res, "MC_MatchingScene/" + name, must_take=["SBegin", "SStage1", "SEndStage1", "SFinish"])
        ctx.log("tlc %s: %d states %.1fs" % (name, res.distinct, res.wall))
        groups, _ = collect(res.dump_path)
        os.remove(res.dump_path)
        items = [(sc, allowed, kinds) for sc, allowed in groups.values()]
        total_groups += len(items)
        outs = pmap(replay_one, items)
        for (sc, allowed, _k), (n, mism) in zip(items, outs):
            ctx.traces += n
            ctx.evaluations += n
            feats = _nontrivial(sc, allowed)
            if feats:
                ctx.nontriv(repr(sorted(sc.items())))
            for clause, sig, msg, rep in mism:
                if mine(clause):
                    ctx.violation(sig, msg, rep)
        ctx.log("replayed %s: %d scenes" % (name, len(items)))
        if items:
            sc, allowed, _ = items[len(items) // 2]
            ctx.sample({"slice": name, "scene": sc, "spec_outcomes": [[sorted(m), sorted(lf)] for m, lf in allowed]}, limit=3)
    # ---- engine T: random float scenes validated by TLC
    ntr = 300 if ctx.quick else 3000
    path = os.path.join(ctx.out, "matching_traces.ndjson")
    meta, skipped = gen_traces(ctx.seed, ntr, path)
    rejected = validate_traces(ctx, path, meta, "Trace_Matching_" + pid)
    ctx.traces += len(meta)
    ctx.evaluations += len(meta)
    for tid, info in meta.items():
        if info["ne"] > 1 and info["ng"] > 1:
            ctx.nontriv(("trace", tid))
        if info.get("raised"):
            if mine("raised"):
                ctx.violation("raised:%s" % ("IndexError:fpval-empty-gt" if info.get("fpval_empty_gt") else "other"),
                              "get_object_results raised %s" % info["raised"], info)
        elif info.get("mutated") and mine("caller-list-mutated"):
            ctx.violation("caller-list-mutated", "input lists changed", info)
    for tid, clause in rejected:
        info = meta.get(tid, {})
        if info.get("raised"):
            continue
        base = clause.split(":")[0]
        cl = clause
        if base == "invariant":
            names = clause.split(":")[1].split(",")
            is01 = any(n_ in ("TOneToOne", "TOnlyValid", "TComplete", "TFpval") for n_ in names)
            ok = is01 if pid == "C01" else not is01
        else:
            ok = mine(cl)
        if ok:
            ctx.violation("trace:" + clause, "trace %d rejected by Trace_Matching: %s" % (tid, clause), info)
    if meta:
        k = sorted(meta)[len(meta) // 2]
        ctx.sample({"trace": k, **{a: b for a, b in meta[k].items() if a != "pairs"}, "pairs": meta[k].get("pairs", [])[:12]})
    ctx.extra["trace_scenes_skipped_for_boundary_margin"] = skipped
    # engine T at manager level: the result list leaving the matcher inside add_frame_result must be an outcome of Matching.tla
    from . import pipeline_trace

    ctx.extra["manager_executions_validated_as_traces"] = pipeline_trace.run(
        ctx, n=150 if ctx.quick else 3000, want=lambda rendering, clause: clause.startswith("matching-") or clause == "raised")
    ctx.rule = (
        "TLC enumerates every abstract score table (MC_Matching) and every lattice scene of the slices (MC_MatchingScene: positions, labels, "
        "policies, thresholds, modes, frames, fp-validation); each scene is replayed through get_object_results with 3-D boxes and 2-D ROIs and the "
        "result must be one of the specification's outcomes; random float scenes (0..30 x 0..30 objects) are validated as traces by TLC. "
        "Non-trivial = scene with ties, a contested ground truth, a matchable threshold, an FP-labelled ground truth or an unknown estimate; "
        "trace with >=2 estimates and >=2 ground truths; counted distinct by scene."
    )
    ctx.exhaustive = False
    ctx.assumptions += [
        "lattice scenes use equally sized axis-aligned boxes/ROIs so all four scores are exact integer functions of the offsets",
        "trace driver skips scenes where a score is within 1e-9 of a threshold or of another score (boundary margin)",
        "pair scores in traces are the library's MatchingMethod.value (exactness is C06), centre distance recomputed independently",
    ]
