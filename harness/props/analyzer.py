"""C19 — Analyzer.tla bound to PerceptionAnalyzer3D and get_object_status (engines M, R); shares the histories of MC_ManagerHist."""
from __future__ import annotations

import json
import math
import os
import shutil
import tempfile

from .. import tlc as T
from ..core import Ctx, pmap
from ..tlaval import load_dump
from . import history, pipeline
from .pipeline import plain

_TMP = None


def bag_items(b):
    """TLA bag (function) -> list of (key, count)"""
    if isinstance(b, dict):
        return [(tuple(k) if isinstance(k, (list, tuple)) else k, v) for k, v in b.items()]
    return [(i + 1, v) for i, v in enumerate(b)]


def replay(arg):
    import numpy as np

    from perception_eval.evaluation.result.perception_frame_result import get_object_status
    from perception_eval.tool import PerceptionAnalyzer3D

    from ..build import frame_gt, vid

    consts, frs, table, rendering, nscenes = arg
    cfg = consts["cfg"]
    ego = pipeline._egos()[1] if rendering.startswith("map") else None
    mgr = pipeline.manager_for(cfg, "map" if rendering.startswith("map") else "base_link")
    ds = consts["dataset"]
    mism = []
    rep = {"calls": [[r["i"], r["ev"], r["cv"]] for r in frs], "world": consts["name"], "rendering": rendering, "scenes": nscenes, "spec_table": {k: table[k] for k in table if k not in ("errs", "conf")}}
    try:
        for k, rec in enumerate(frs):
            frame = {"ests": consts["ests"][rec["ev"] - 1], "gts": ds[rec["i"] - 1], "crit": consts["crits"][rec["cv"] - 1], "pf": consts["pf"]}
            crit, pfc = pipeline.frame_configs(mgr, frame)
            ests, gts = pipeline.render_objects(frame, rendering, ego)
            if rendering == "map:looked-up":    # ground truth by an interpolating lookup on loaded frames (the ego drives through `ego`)
                fgt = pipeline.looked_up_gt(gts, ego, 1000 * (k + 1), name=str(k))
            else:
                fgt = frame_gt(gts, time=1000 * (k + 1), name=str(k), ego=ego)
            mgr.add_frame_result(1000 * (k + 1), fgt, ests, crit, pfc)
        frame_results = list(mgr.frame_results)
        an = PerceptionAnalyzer3D(mgr.evaluator_config)
        for _ in range(nscenes):
            an.add(frame_results)
    except Exception as ex:
        return 1, [("raised", "raised %r" % (ex,), rep)]
    S = nscenes
    got = dict(numEst=an.num_estimation, tp=an.num_tp, fp=an.num_fp, tn=an.num_tn, fn=an.num_fn, numGt=an.num_ground_truth)
    rep["impl"] = got
    for k in ("numEst", "tp", "fp", "tn", "fn"):
        if got[k] != S * table[k]:
            mism.append(("count-" + k, "analyzer %s = %d, specification %d x %d scenes" % (k, got[k], table[k], S), rep))
    if got["numGt"] != S * table["numCritical"]:
        # the statement: ground-truth count = number of critical ground truths
        if got["numGt"] == S * table["numGtRows"] and table["dup"] > 0:
            mism.append(("ground-truth-count:gt-matched-by-failing-estimate-counted-twice",
                         "num_ground_truth %d, critical ground truths %d: %d ground truth(s) matched by a failing estimate appear in an FP row pair and again as FN" % (
                             got["numGt"], S * table["numCritical"], S * table["dup"]), rep))
        else:
            mism.append(("ground-truth-count", "num_ground_truth %d, specification %d (rows %d)" % (got["numGt"], S * table["numCritical"], S * table["numGtRows"]), rep))
    df = an.df
    if len(df) != 2 * S * (table["tp"] + table["fp"] + table["tn"] + table["fn"]):
        mism.append(("row-pairs", "table has %d rows, specification %d row pairs" % (len(df), S * (table["tp"] + table["fp"] + table["tn"] + table["fn"])), rep))
    # ego-frame positions of every row
    want_err = []
    for n, rec in enumerate(frs):
        for key, cnt in bag_items(table["errs"][n]):
            want_err += [tuple(key)] * cnt
    for col, idx in (("x", 0), ("y", 1)):
        err = sorted(round(float(v), 6) for v in an.calculate_error(col))
        exp = sorted(float(e[idx]) for e in want_err for _ in range(S))
        if len(err) != len(exp) or any(abs(a - b) > 1e-6 for a, b in zip(err, exp)):
            mism.append(("error-" + col, "%s errors %s, specification %s" % (col, err[:8], exp[:8]), rep))
    yaw = an.calculate_error("yaw")
    if len(yaw) and (np.abs(yaw) > math.pi + 1e-9).any():
        mism.append(("error-yaw-range", "yaw error outside [-pi, pi]", rep))
    if len(yaw) and (np.abs(yaw) > 1e-6).any():
        mism.append(("error-yaw", "yaw errors %s for equal headings" % yaw[:5], rep))
    # rows hold ego-frame coordinates
    for n, rec in enumerate(frs):
        sub = df[(df["frame"] == n) & (df["scene"] == 0)]
        if len(sub) == 0 or "estimation" not in sub.index.get_level_values(1):
            if rec["tp"] or rec["fp"]:
                mism.append(("ego-frame-position", "frame %d has no estimate rows" % n, rep))
            continue
        est_rows = sub.xs("estimation", level=1)
        est_rows = est_rows[~est_rows["status"].isnull()]
        got_xy = sorted((round(float(r.x), 6), round(float(r.y), 6)) for r in est_rows.itertuples())
        exp_xy = sorted((float(rec["ests"][e - 1]["x"]), float(rec["ests"][e - 1]["y"])) for e, g in list(rec["tp"]) + list(rec["fp"]))
        if got_xy != exp_xy:
            mism.append(("ego-frame-position", "frame %d estimate rows at %s, specification (ego frame) %s" % (n, got_xy, exp_xy), rep))
    # analysis summaries
    try:
        res = an.analyze()
        if res.score is not None:
            for col in ("TP", "FP", "TN", "FN"):
                vals = res.score[col].to_numpy(dtype=float)
                if ((vals < -1e-12) | (vals > 1 + 1e-12)).any():
                    mism.append(("rate-out-of-range", "%s rates %s" % (col, vals), rep))
        cm = res.confusion_matrix
        total = int(cm.to_numpy().sum()) if cm is not None else 0
        if total != S * table["paired"]:
            mism.append(("confusion-sum", "confusion matrix sums to %d, paired rows %d" % (total, S * table["paired"]), rep))
        if cm is not None:
            want = {}
            for n in range(len(frs)):
                for key, cnt in bag_items(table["conf"][n]):
                    want[tuple(key)] = want.get(tuple(key), 0) + cnt * S
            for (gl, el), cnt in want.items():
                if gl in cm.index and el in cm.columns and int(cm.loc[gl, el]) != cnt:
                    mism.append(("confusion-entry", "confusion[%s][%s] = %d, specification %d" % (gl, el, int(cm.loc[gl, el]), cnt), rep))
        if res.error is not None and want_err:
            pass
    except Exception as ex:
        mism.append(("raised", "analyze() raised %r" % (ex,), rep))
    # selections: a scene / an area picks exactly its own row pairs
    try:
        npairs = table["tp"] + table["fp"] + table["tn"] + table["fn"]
        for sc_ in range(S):
            sel = an.get(scene=sc_)
            if len(sel) != 2 * npairs:
                mism.append(("selection-scene", "get(scene=%d) holds %d rows, one scene has %d row pairs" % (sc_, len(sel), npairs), rep))
            if len(sel) and an.get_num_tp(df=sel) != table["tp"]:
                mism.append(("selection-scene", "scene %d: num_tp %d, specification %d" % (sc_, an.get_num_tp(df=sel), table["tp"]), rep))
            # the counters' own keyword selections (scene 0 is a falsy value; an empty selection list selects nothing) agree with the
            # counters applied to the selected rows, and with the specification's per-scene table (seeded C19_r10)
            for nm_ in ("tp", "fp", "tn", "fn", "estimation", "ground_truth"):
                f_ = getattr(an, "get_num_" + nm_)
                kw_, df_ = f_(scene=sc_), (f_(df=sel) if len(sel) else 0)
                if kw_ != df_ or (nm_ in ("tp", "fp") and kw_ != table[nm_]):
                    mism.append(("selection-scene", "get_num_%s(scene=%d) = %d, on the selected rows %d%s" % (
                        nm_, sc_, kw_, df_, ", specification %d" % table[nm_] if nm_ in ("tp", "fp") else ""), rep))
                if f_(scene=[sc_]) != kw_:
                    mism.append(("selection-scene", "get_num_%s(scene=[%d]) = %d, get_num_%s(scene=%d) = %d" % (nm_, sc_, f_(scene=[sc_]), nm_, sc_, kw_), rep))
            if npairs:
                r_ = an.analyze(scene=sc_)
                tot = int(r_.confusion_matrix.to_numpy().sum()) if r_.confusion_matrix is not None else 0
                if tot != table["paired"]:
                    mism.append(("selection-scene", "analyze(scene=%d): confusion matrix sums to %d, one scene has %d paired rows" % (sc_, tot, table["paired"]), rep))
        if S == 1 and npairs:
            an3 = PerceptionAnalyzer3D(mgr.evaluator_config, num_area_division=3)
            an3.add(frame_results)
            max_x = mgr.evaluator_config.evaluation_config_dict.get("max_x_position", 100.0)
            third = 2.0 * max_x / 3.0
            want_area = {0: 0, 1: 0, 2: 0}
            for rec in frs:
                xs = [rec["ests"][e - 1]["x"] for e, g in list(rec["tp"]) + list(rec["fp"])] + [rec["gts"][g - 1]["x"] for g in list(rec["tn"]) + list(rec["fn"])]
                for x in xs:
                    k_ = 0 if x > max_x - third else (1 if x > max_x - 2 * third else 2)
                    if abs(x - (max_x - third)) > 1e-6 and abs(x - (max_x - 2 * third)) > 1e-6 and abs(x) < max_x:
                        want_area[k_] += 1
                    else:
                        want_area = None
                        break
                if want_area is None:
                    break
            if want_area is not None:
                for k_, cnt in want_area.items():
                    got_ = len(an3.get(area=k_)) // 2
                    if got_ != cnt:
                        mism.append(("selection-area", "get(area=%d) holds %d row pairs, specification %d" % (k_, got_, cnt), rep))
    except Exception as ex:
        mism.append(("raised", "selection raised %r" % (ex,), rep))
    # analyses restricted to a distance range / area are queries: afterwards the table still tabulates the same frames, and the frames the
    # analyzer holds still have the pass/fail lists they were tabulated from
    def frame_sizes():
        return [(len(f.pass_fail_result.tp_object_results), len(f.pass_fail_result.fp_object_results), len(f.pass_fail_result.tn_objects),
                 len(f.pass_fail_result.fn_objects), len(f.frame_ground_truth.objects), len(f.object_results)) for v in an.frame_results.values() for f in v]

    try:
        sizes0 = frame_sizes()
        for rng_ in ((0.0, 1.6), (1.2, 2.7), (0.5, 50.0)):
            try:
                an.analyze(distance=rng_)
                an.summarize_score(distance=rng_)
            except Exception as ex:
                mism.append(("raised", "analyze(distance=%s) raised %r" % (rng_, ex), rep))
        got2 = dict(numEst=an.num_estimation, tp=an.num_tp, fp=an.num_fp, tn=an.num_tn, fn=an.num_fn, numGt=an.num_ground_truth)
        if got2 != got:
            mism.append(("restricted-analysis-changed-table", "counts %s before, %s after analyze(distance=...)" % (got, got2), rep))
        if frame_sizes() != sizes0:
            mism.append(("restricted-analysis-changed-frames", "pass/fail list sizes per frame %s before, %s after analyze(distance=...)" % (sizes0, frame_sizes()), rep))
        want_sizes = [(len(r["tp"]), len(r["fp"]), len(r["tn"]), len(r["fn"])) for _ in range(S) for r in frs]
        if [z[:4] for z in frame_sizes()] != want_sizes:
            mism.append(("analyzer-frames-differ-from-table", "frames held by the analyzer have TP/FP/TN/FN sizes %s, specification %s" % ([z[:4] for z in frame_sizes()], want_sizes), rep))
        an_b = PerceptionAnalyzer3D(mgr.evaluator_config)
        for v in an.frame_results.values():
            an_b.add(v)
        if (an_b.num_tp, an_b.num_fp, an_b.num_tn, an_b.num_fn) != (got["tp"], got["fp"], got["tn"], got["fn"]):
            mism.append(("restricted-analysis-changed-frames", "re-tabulating the analyzer's frames gives different counts", rep))
    except Exception as ex:
        mism.append(("raised", "restricted analysis raised %r" % (ex,), rep))
    # per-object status tallies: each critical ground truth once per frame
    st = get_object_status(frame_results)
    per = {}
    for s in st:
        for f in s.total_frame_nums:
            per[(s.uuid, f)] = per.get((s.uuid, f), 0) + 1
    dup_status = sum(1 for v in per.values() if v > 1)
    n_status = sum(per.values())
    # status by status, the tallies are the frames' pass/fail lists: one TP tally per TP result, one FP tally per FP result that carries a ground
    # truth, one TN / FN tally per TN / FN object
    want_t = dict(TP=sum(len(f.pass_fail_result.tp_object_results) for f in frame_results),
                  FP=sum(1 for f in frame_results for r_ in f.pass_fail_result.fp_object_results if r_.ground_truth_object is not None),
                  TN=sum(len(f.pass_fail_result.tn_objects) for f in frame_results), FN=sum(len(f.pass_fail_result.fn_objects) for f in frame_results))
    got_t = dict(TP=sum(len(s.tp_frame_nums) for s in st), FP=sum(len(s.fp_frame_nums) for s in st), TN=sum(len(s.tn_frame_nums) for s in st),
                 FN=sum(len(s.fn_frame_nums) for s in st))
    if got_t != want_t:
        mism.append(("object-status-per-status", "status tallies %s, the frames' pass/fail lists give %s" % (got_t, want_t), rep))
    if n_status != table["numCritical"]:
        if dup_status == table["dup"] and n_status == table["numGtRows"] and table["dup"] > 0:
            mism.append(("object-status:gt-matched-by-failing-estimate-counted-twice",
                         "get_object_status records %d ground truth(s) twice in one frame (FP and FN)" % dup_status, rep))
        else:
            mism.append(("object-status", "get_object_status holds %d entries, critical ground truths %d" % (n_status, table["numCritical"]), rep))
    # the same sequence as two scenes: every judgement is tallied, rates stay within [0, 1]
    from perception_eval.common.status import get_scene_rates

    st2 = get_object_status(frame_results + frame_results)
    tot2 = sum(len(s_.total_frame_nums) for s_ in st2)
    parts2 = sum(len(s_.tp_frame_nums) + len(s_.fp_frame_nums) + len(s_.tn_frame_nums) + len(s_.fn_frame_nums) for s_ in st2)
    if tot2 != parts2 or tot2 != 2 * n_status:
        mism.append(("object-status-two-scenes", "two scenes: %d total tallies, %d TP/FP/TN/FN tallies, one scene has %d" % (tot2, parts2, n_status), rep))
    for s_ in st2:
        for r_ in s_.get_status_rates():
            if not (r_.rate != r_.rate or -1e-12 <= r_.rate <= 1 + 1e-12 or r_.rate == float("inf")):
                mism.append(("status-rate-out-of-range", "ground truth %s: %s rate %r" % (s_.uuid, r_.status, r_.rate), rep))
    if st2:
        rates = get_scene_rates(st2)
        if any(r_ == r_ and r_ != float("inf") and not (-1e-12 <= r_ <= 1 + 1e-12) for r_ in rates):
            mism.append(("status-rate-out-of-range", "scene rates %s" % (rates,), rep))
        # the rates are the tallies over their total (TP, FP, TN, FN order), and the per-object rates likewise
        if tot2 > 0:
            want_r = tuple(sum(len(getattr(s_, a)) for s_ in st2) / tot2 for a in ("tp_frame_nums", "fp_frame_nums", "tn_frame_nums", "fn_frame_nums"))
            if any(abs(a - b) > 1e-12 for a, b in zip(rates, want_r)):
                mism.append(("scene-rates", "get_scene_rates %s, tallies give %s" % (rates, want_r), rep))
            for s_ in st2:
                tot_ = len(s_.total_frame_nums)
                for r_ in s_.get_status_rates():
                    want_ = len({"TP": s_.tp_frame_nums, "FP": s_.fp_frame_nums, "TN": s_.tn_frame_nums, "FN": s_.fn_frame_nums}[str(r_.status)]) / tot_ if tot_ else None
                    # as built, a status that never occurred for the object has the rate inf ("undefined"), not 0
                    if want_ is not None and not (want_ == 0 and r_.rate == float("inf")) and abs(r_.rate - want_) > 1e-12:
                        mism.append(("status-rate", "ground truth %s: %s rate %r, tallies give %r" % (s_.uuid, r_.status, r_.rate, want_), rep))
    if not st2 and any(v != float("inf") for v in get_scene_rates([])):
        mism.append(("scene-rates", "get_scene_rates([]) = %s" % (get_scene_rates([]),), rep))
    return 1, mism


def yaw_case(arg):
    """one frame of well separated (estimate, ground truth) pairs with headings on / off the +-pi cut, evaluated by a real manager in base_link or in
    map, tabulated by the analyzer -> Trace_Heading events (a = ground-truth yaw, b = estimate yaw in the ego frame, e = reported yaw error) and
    the error summaries"""
    import random as _r
    import shutil
    import tempfile

    import numpy as np

    from perception_eval.config import PerceptionEvaluationConfig
    from perception_eval.evaluation.result.perception_frame_config import CriticalObjectFilterConfig, PerceptionPassFailConfig
    from perception_eval.manager import PerceptionEvaluationManager
    from perception_eval.tool import PerceptionAnalyzer3D

    from ..build import EgoPose, frame_gt, obj3d

    seed, k = arg
    rng = _r.Random(seed * 7919 + k)
    rendering = "map" if k % 2 else "base_link"
    ego = EgoPose(rng.uniform(-300, 300), rng.uniform(-300, 300), 0.0, rng.uniform(-math.pi, math.pi)) if rendering == "map" else None
    special = [(-3.0, 3.0), (3.0, -3.0), (-math.pi / 2, math.pi - 0.01), (0.5, -0.5), (2.0, -2.0), (-2.0, 2.0), (0.0, 0.0), (3.1, -3.1), (-3.1, 3.1)]
    n = rng.randint(2, 6)
    pairs_ = [rng.choice(special) if rng.random() < 0.7 else (rng.uniform(-math.pi, math.pi), rng.uniform(-math.pi, math.pi)) for _ in range(n)]
    d = {"evaluation_task": "detection", "target_labels": ["car", "pedestrian"], "label_prefix": "autoware", "merge_similar_labels": False, "max_x_position": 100.0,
         "max_y_position": 100.0, "center_distance_thresholds": [[1.0, 1.0]], "plane_distance_thresholds": [[2.0, 2.0]], "iou_2d_thresholds": None, "iou_3d_thresholds": None,
         "min_point_numbers": [0, 0]}
    tmp = tempfile.mkdtemp(prefix="verif_yaw_")
    try:
        ec = PerceptionEvaluationConfig([], "map" if rendering == "map" else "base_link", tmp, d)
        mgr = PerceptionEvaluationManager(ec)
    finally:
        shutil.rmtree(tmp, ignore_errors=True)
    fr = "map" if rendering == "map" else "base_link"
    E, G = [], []
    for i, (yg, ye) in enumerate(pairs_):
        x = -40.0 + 15.0 * i
        y = 6.0 * ((i % 3) - 1)
        lab = "car" if i % 2 == 0 else "pedestrian"
        G.append(obj3d((x, y, 0.0), yaw=yg, size=(2.0, 4.0, 1.5), label=lab, frame=fr, ego=ego, uuid="g%d" % i))
        dx_ = 3.2 if i % 3 == 2 else 0.2          # every third pair is matched but fails the pass/fail threshold: a paired FP row
        E.append(obj3d((x + dx_, y - 0.1, 0.0), yaw=ye, size=(2.0, 4.0, 1.5), label=lab, score=0.9 - 0.01 * i, frame=fr, ego=ego, uuid="e%d" % i))
    crit = CriticalObjectFilterConfig(ec, ["car", "pedestrian"], max_x_position_list=[100.0, 100.0], max_y_position_list=[100.0, 100.0])
    pfc = PerceptionPassFailConfig(ec, ["car", "pedestrian"], [2.0, 2.0])
    info = dict(rendering=rendering, pairs=pairs_)
    try:
        mgr.add_frame_result(1000, frame_gt(G, ego=ego), E, crit, pfc)
        an = PerceptionAnalyzer3D(ec)
        an.add(mgr.frame_results)
        # sorted views are views: asking for them leaves the table (and every later analysis) alone
        snap = an.df.copy()
        s1 = an.sortby(["yaw", "x"], ascending=True)
        s2 = an.sortby("confidence")
        sort_problem = None
        if not an.df.equals(snap) or list(an.df.index) != list(snap.index):
            sort_problem = "sortby() without a table argument reordered / changed the analyzer's own table"
        elif len(s1) != len(snap) or len(s2) != len(snap) or not s1["yaw"].dropna().is_monotonic_increasing or not s2["confidence"].dropna().is_monotonic_decreasing:
            sort_problem = "sortby() did not return the table sorted by the requested column"
        info["sortby_problem"] = sort_problem
        gt_df, est_df = an.get_pair_results(an.df[an.df["status"].isin(["TP", "FP", "TN"])])
        err = an.calculate_error("yaw")
        if gt_df is None or len(err) != len(pairs_):
            return [], dict(info, problem="%d yaw errors for %d pairs" % (len(err), len(pairs_)))
        evs = []
        by_label = {"car": [], "pedestrian": []}
        for (_, grow), e_ in zip(gt_df.iterrows(), err):
            i = int(round((float(grow["x"]) + 40.0) / 15.0))
            by_label["car" if i % 2 == 0 else "pedestrian"].append(float(e_))
            yg, ye = pairs_[i]
            dd = abs(math.atan2(math.sin(yg - ye), math.cos(yg - ye)))
            w4 = int(round((1 - dd / math.pi) * 1e4))
            evs.append(dict(a=int(round(yg * 1e4)) % 62832, b=int(round(ye * 1e4)) % 62832, w4=w4, w4r=w4, e=int(round(float(e_) * 1e4)), tolw=1, tole=1))
        # the field analyzer keeps its own pair-wise error columns: the same law for its yaw error (both rows of a pair, opposite signs)
        from perception_eval.tool.perception_analyzer3dfield import PerceptionAnalyzer3DField

        fa = PerceptionAnalyzer3DField(ec)
        fa.add(mgr.frame_results)
        fa.add_additional_column()
        fa.add_error_columns()
        nfield = 0
        for idx0, item in fa.df.groupby(level=0):
            kinds = list(item.index.get_level_values(1))
            if "ground_truth" not in kinds or "estimation" not in kinds:
                continue
            grow, erow = item.xs("ground_truth", level=1).iloc[0], item.xs("estimation", level=1).iloc[0]
            if np.isnan(grow["error_yaw"]):
                continue
            i = int(round((float(grow["x"]) + 40.0) / 15.0))
            yg, ye = pairs_[i]
            dd = abs(math.atan2(math.sin(yg - ye), math.cos(yg - ye)))
            w4 = int(round((1 - dd / math.pi) * 1e4))
            for val in (float(grow["error_yaw"]), float(erow["error_yaw"])):
                evs.append(dict(a=int(round(yg * 1e4)) % 62832, b=int(round(ye * 1e4)) % 62832, w4=w4, w4r=w4, e=int(round(val * 1e4)), tolw=1, tole=1))
            if abs(float(grow["error_yaw"]) + float(erow["error_yaw"])) > 1e-9:
                info["field_problem"] = "field analyzer: the two rows of pair %d carry yaw errors %r and %r (not opposite)" % (i, float(grow["error_yaw"]), float(erow["error_yaw"]))
            nfield += 1
        if nfield != len(pairs_):
            info["field_problem"] = "field analyzer: %d pairs with a yaw error for %d matched pairs" % (nfield, len(pairs_))
        summ = an.summarize_error()
        row = summ.loc[("ALL", "yaw")]
        want = dict(average=float(np.average(err)), rms=float(np.sqrt(np.square(err).mean())), std=float(np.std(err)), max=float(np.max(np.abs(err))), min=float(np.min(np.abs(err))))
        bad = [k_ for k_, v in want.items() if abs(float(row[k_]) - v) > 1e-9]
        # the per-label rows summarise that label's pairs only
        for lab_, errs_ in by_label.items():
            if errs_ and (lab_, "yaw") in summ.index:
                e2 = np.array(errs_)
                w2 = dict(average=float(np.average(e2)), rms=float(np.sqrt(np.square(e2).mean())), max=float(np.max(np.abs(e2))), min=float(np.min(np.abs(e2))))
                bad += ["%s:%s" % (lab_, k_) for k_, v in w2.items() if abs(float(summ.loc[(lab_, "yaw")][k_]) - v) > 1e-9]
        return evs, dict(info, errors=[float(v) for v in err], summary_mismatch=bad)
    except Exception as ex:
        return [], dict(info, problem="raised %r" % (ex,))


def yaw_traces(ctx):
    from .. import trace

    outs = pmap(yaw_case, [(ctx.seed, k) for k in range(60 if ctx.quick else 600)], chunks=1)
    evs, info = [], {}
    tid = 0
    for e_, inf in outs:
        if inf.get("problem"):
            ctx.violation("yaw-error-rows", inf["problem"], inf)
            continue
        if inf.get("summary_mismatch"):
            ctx.violation("yaw-error-summary", "summaries %s of the yaw error differ from their definitions" % inf["summary_mismatch"], inf)
        if inf.get("field_problem"):
            ctx.violation("yaw-error-field-analyzer", inf["field_problem"], inf)
        if inf.get("sortby_problem") and ctx.pid == "C19":
            ctx.violation("sortby-not-a-view", inf["sortby_problem"], inf)
        for ev in e_:
            tid += 1
            evs.append(dict(ev, tid=tid))
            info[tid] = inf
    rej = trace.validate(ctx, "Trace_Heading", evs, tag="Trace_Heading_" + ctx.pid)
    ctx.traces += len(outs)
    ctx.evaluations += len(evs)
    ctx.nontrivial_count += sum(1 for _, inf in outs if any(abs(a - b) > math.pi for a, b in inf["pairs"]))
    for t_, line, clause in rej:
        ctx.violation("yaw-error:" + clause, "analyzer yaw error for pair %s rejected by Trace_Heading: %s" % (info[t_]["pairs"], clause), info[t_])


def replay_area(arg):
    """Areas.tla bound to generate_area_points / get_area_idx / extract_area_results"""
    import shutil
    import tempfile

    import numpy as np

    from perception_eval.evaluation.result.object_result import DynamicObjectWithPerceptionResult
    from perception_eval.tool.utils import extract_area_results, generate_area_points, get_area_idx

    from ..build import EgoPose, frame_gt, obj3d, vid

    st = arg
    n, (a, b) = st["n"], st["ab"]
    mism = []
    rep = {"kind": st["kind"], "divisions": n, "max_x": 3 * a, "max_y": 3 * b}
    try:
        ur, bl = generate_area_points(n, float(3 * a), float(3 * b))
        if st["kind"] == "point":
            p = st["p"]
            rep.update(point=list(p), spec_area=st["out"]["area"])
            want = [(r["xhi"], r["ylo"], r["xlo"], r["yhi"]) for r in st["out"]["rects"]]
            got = [(float(u[0]), float(u[1]), float(l[0]), float(l[1])) for u, l in zip(ur, bl)]
            if len(got) != len(want) or any(abs(x - y) > 1e-9 for g_, w_ in zip(got, want) for x, y in zip(g_, w_)):
                mism.append(("area-rectangles", "generate_area_points(%d) = %s, specification %s" % (n, got, want), rep))
            exp = st["out"]["area"] - 1 if st["out"]["area"] > 0 else None
            border = p[0] in (-3 * a, -a, a, 3 * a) or p[1] in (-3 * b, -b, b, 3 * b)
            ego = EgoPose(70.0, -20.0, 0.0, 2.2)
            for how in ("base_link", "map", "result"):
                if how == "map" and border:
                    continue
                e_ = ego if how == "map" else EgoPose()
                o = obj3d((p[0], p[1], 0.0), frame="map" if how == "map" else "base_link", ego=e_)
                obj = DynamicObjectWithPerceptionResult(o, None) if how == "result" else o
                got_idx = get_area_idx(obj, ur, bl, e_.transforms())
                if got_idx != exp:
                    mism.append(("area-index", "get_area_idx of %s at %s (%s) = %r, specification %r" % (type(obj).__name__, list(p), how, got_idx, exp), rep))
        else:
            from perception_eval.config import PerceptionEvaluationConfig
            from perception_eval.evaluation.result.perception_frame_config import CriticalObjectFilterConfig, PerceptionPassFailConfig
            from perception_eval.manager import PerceptionEvaluationManager

            pts, sel = [tuple(q) for q in st["pts"]], sorted(st["sel"])
            rep.update(points=[list(q) for q in pts], selection=[k - 1 for k in sel], spec_kept=[list(q) for q in st["out"]["kept"]])
            d = {"evaluation_task": "detection", "target_labels": ["car"], "label_prefix": "autoware", "merge_similar_labels": False, "max_x_position": 100.0,
                 "max_y_position": 100.0, "min_point_numbers": [0], "center_distance_thresholds": [[1.0]], "plane_distance_thresholds": None, "iou_2d_thresholds": None, "iou_3d_thresholds": None}
            tmp = tempfile.mkdtemp(prefix="verif_area_")
            try:
                ec = PerceptionEvaluationConfig([], "base_link", tmp, d)
                mgr = PerceptionEvaluationManager(ec)
            finally:
                shutil.rmtree(tmp, ignore_errors=True)
            E = [obj3d((q[0], q[1], 0.0), label="car", score=0.9 - 0.01 * i, vid=i + 1, uuid="e%d" % i) for i, q in enumerate(pts)]
            G = [obj3d((q[0], q[1], 0.0), label="car", vid=i + 1, uuid="g%d" % i) for i, q in enumerate(pts)]
            crit = CriticalObjectFilterConfig(ec, ["car"], max_x_position_list=[100.0], max_y_position_list=[100.0])
            mgr.add_frame_result(1000, frame_gt(G), E, crit, PerceptionPassFailConfig(ec, ["car"], [1.0]))
            before = (len(mgr.frame_results[0].object_results), len(mgr.frame_results[0].frame_ground_truth.objects))
            outf = extract_area_results(mgr.frame_results, [k - 1 for k in sel], ur, bl)
            kept_e = sorted(vid(r.estimated_object) for r in outf[0].object_results)
            kept_g = sorted(vid(g) for g in outf[0].frame_ground_truth.objects)
            want_ids = sorted(i + 1 for i, q in enumerate(pts) if list(q) in [list(x) for x in st["out"]["kept"]])
            if kept_e != want_ids or kept_g != want_ids:
                mism.append(("area-selection", "extract_area_results keeps estimates %s / ground truths %s, specification %s" % (kept_e, kept_g, want_ids), rep))
            if (len(mgr.frame_results[0].object_results), len(mgr.frame_results[0].frame_ground_truth.objects)) != before:
                mism.append(("area-selection-modified-input", "extract_area_results changed the frame results it was given", rep))
            # the same points relative to a moving ego, objects stored in map coordinates: a drive of three frames, extracted in one call
            border = any(q[0] in (-3 * a, -a, a, 3 * a) or q[1] in (-3 * b, -b, b, 3 * b) for q in pts)
            if not border:
                tmp = tempfile.mkdtemp(prefix="verif_area_")
                try:
                    ecm = PerceptionEvaluationConfig([], "map", tmp, d)
                    mgm = PerceptionEvaluationManager(ecm)
                finally:
                    shutil.rmtree(tmp, ignore_errors=True)
                critm = CriticalObjectFilterConfig(ecm, ["car"], max_x_position_list=[100.0], max_y_position_list=[100.0])
                egos = [EgoPose(70.0, -20.0, 0.0, 2.2), EgoPose(76.0, -11.0, 0.0, -0.9), EgoPose(-15.0, 40.0, 0.0, 0.4)]
                for j, e_ in enumerate(egos):
                    Em = [obj3d((q[0], q[1], 0.0), label="car", score=0.9 - 0.01 * i, vid=i + 1, uuid="e%d" % i, frame="map", ego=e_) for i, q in enumerate(pts)]
                    Gm = [obj3d((q[0], q[1], 0.0), label="car", vid=i + 1, uuid="g%d" % i, frame="map", ego=e_) for i, q in enumerate(pts)]
                    mgm.add_frame_result(1000 + j, frame_gt(Gm, ego=e_, time=1000 + j), Em, critm, PerceptionPassFailConfig(ecm, ["car"], [1.0]))
                outm = extract_area_results(mgm.frame_results, [k - 1 for k in sel], ur, bl)
                for j, fr_ in enumerate(outm):
                    ke = sorted(vid(r.estimated_object) for r in fr_.object_results)
                    kg = sorted(vid(g) for g in fr_.frame_ground_truth.objects)
                    if ke != want_ids or kg != want_ids:
                        mism.append(("area-selection-map-frame", "frame %d of a drive stored in map coordinates: extract_area_results keeps estimates %s / ground truths %s, "
                                     "specification (and the same scene in base_link) %s" % (j, ke, kg, want_ids), rep))
    except Exception as ex:
        mism.append(("raised", "area replay raised %r" % (ex,), rep))
    return 1, mism


def areas_run(ctx):
    consts = dict(Span="7", ABs="{<<1,1>>, <<2,1>>, <<1,2>>}", Sample="25" if ctx.quick else "200")
    res = T.run_model("MC_Areas", "MCAR_" + ctx.pid, consts, invariants=["LawPartition", "LawRefines"], model_values=(),
                      tlc_kwargs=dict(dump=True, allow_violation=False, seed=ctx.seed, timeout=1200))
    ctx.add_tlc(res, "MC_Areas (1/3/9 divisions, thirds a,b <= 2, every lattice point of a 15x15 block)", must_take=["Next"])
    states, _ = load_dump(res.dump_path, must_contain='phase = "done"')
    os.remove(res.dump_path)
    items = [dict(kind=st["kind"], n=st["n"], ab=tuple(st["ab"]), p=tuple(st["p"]), pts=plain(st["pts"]), sel=sorted(st["sel"]), out=plain(st["out"])) for st in states]
    if ctx.quick:
        items = [it for i, it in enumerate(items) if it["kind"] == "select" or i % 2 == 0]
    outs = pmap(replay_area, items)
    for it, (n_, mism) in zip(items, outs):
        ctx.traces += n_
        ctx.evaluations += n_
        if it["kind"] == "select" or it["out"].get("area", 0) > 0:
            ctx.nontrivial_count += 1
        for clause, msg, rep in mism:
            ctx.violation(clause, msg, rep)
    ctx.extra["area_partition_cases"] = len(items)


def run(ctx: Ctx):
    yaw_traces(ctx)
    areas_run(ctx)
    maxcalls = 2
    for name, w in history.worlds(ctx.tier).items():
        consts = dict(w, MaxN="3", LcmN="6", MaxCalls=str(maxcalls), AsBuiltAliasedGT="FALSE", PoolN="9", PoolL="2520")
        res = T.run_model("MC_ManagerHist", "MCMH_an_%s" % name, consts, init="HInit", next="HNext", invariants=["AnalyzerCounts", "GTConservation", "ResultsPartition"],
                          model_values=(), tlc_kwargs=dict(dump=True, allow_violation=False, timeout=3000))
        ctx.add_tlc(res, "MC_ManagerHist+Analyzer/%s depth %d" % (name, maxcalls), must_take=["BeginAdd", "Step", "Commit"])
        states, _ = load_dump(res.dump_path, must_contain='pc = "idle"')
        os.remove(res.dump_path)
        cfgv = None
        items = []
        for st in states:
            if st["pc"] != "idle" or len(st["frameResults"]) == 0:
                continue
            cfgv = cfgv or plain(st["cfg"])
            items.append(st)
        consts_py = dict(name=name, cfg=cfgv, dataset=history._parse_tla(w["Dataset"]), ests=history._parse_tla(w["EstVariants"]),
                         crits=history._parse_tla(w["CritVariants"]), pf=history._parse_tla(w["Pf"]))
        jobs = []
        for k, st in enumerate(items):
            frs, table = plain(st["frameResults"]), plain(st["table"])
            if ctx.quick and len(frs) == 2 and k % 3:
                continue
            jobs.append((consts_py, frs, table, "base_link", 1))
            if k % 2 == 0:
                jobs.append((consts_py, frs, table, "map", 1))
            if k % 5 == 0:
                jobs.append((consts_py, frs, table, "base_link", 2))
            if k % 4 == 1:
                jobs.append((consts_py, frs, table, "map:looked-up", 1))
        outs = pmap(replay, jobs, procs=16)
        for job, (n, mism) in zip(jobs, outs):
            ctx.traces += n
            ctx.evaluations += n
            if job[2]["fp"] + job[2]["fn"] + job[2]["tn"] > 0:
                ctx.nontriv(json.dumps([name, [[c["i"], c["ev"], c["cv"]] for c in job[1]], job[3], job[4]]))
            for clause, msg, rep in mism:
                ctx.violation(clause, msg, rep)
        ctx.log("replayed %s: %d analyses" % (name, len(jobs)))
        j = jobs[len(jobs) // 2]
        ctx.sample({"world": name, "calls": [[c["i"], c["ev"], c["cv"]] for c in j[1]], "rendering": j[3], "scenes": j[4],
                    "spec_table": {k: j[2][k] for k in j[2] if k not in ("errs", "conf")}}, limit=3)
    ctx.exhaustive = True
    ctx.rule = (
        "the histories of MC_ManagerHist (every sequence of up to 2 add_frame_result calls over two worlds) carry the table Analyzer.tla derives from "
        "the committed frame results (row pairs per TP/FP/TN/FN, estimate and ground-truth counts, duplicated ground truths, position errors and "
        "confusion counts of the paired rows); TLC checks per-status counts = list sizes, ground-truth rows = critical ground truths and the "
        "as-built ground-truth count identity in every state. Each history is evaluated by a real manager (base_link and map rendering, one and "
        "two scenes), tabulated by PerceptionAnalyzer3D and compared: num_* properties, number of rows, ego-frame positions of the rows, x / y / "
        "yaw errors, rates within [0,1], confusion matrix entries and sum, get_object_status. Non-trivial = history with an FP, FN or TN."
    )
    ctx.assumptions += ["all headings equal (yaw errors 0); area division 1", "one known finding: ground truth matched by a failing estimate is tabulated twice"]
