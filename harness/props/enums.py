"""C20 — Enums.tla bound to the string->enum parsers and the enum-or-string call sites (engines M, T)."""
from __future__ import annotations

import random

from .. import tlc as T
from .. import trace
from ..core import Ctx
from ..trace import b


def _parsers():
    from perception_eval.common.evaluation_task import EvaluationTask, set_task
    from perception_eval.common.schema import FrameID, SensorModality, Visibility
    from perception_eval.common.shape import ShapeType
    from perception_eval.evaluation.matching.object_matching import MatchingLabelPolicy

    return [
        ("EvaluationTask", EvaluationTask, EvaluationTask.from_value, 0),
        ("EvaluationTask", EvaluationTask, set_task, 1),
        ("FrameID", FrameID, FrameID.from_value, 0),
        ("Visibility", Visibility, Visibility.from_value, 0),
        ("SensorModality", SensorModality, SensorModality.from_value, 0),
        ("ShapeType", ShapeType, ShapeType.from_value, 0),
        ("MatchingLabelPolicy", MatchingLabelPolicy, MatchingLabelPolicy.from_str, 0),
        # the same table at the place where a user writes the string: the evaluation configuration
        ("MatchingLabelPolicy", MatchingLabelPolicy, _policy_via_config, 0),
    ]


_CFG_TMP = []


def _policy_via_config(s):
    """matching_label_policy as PerceptionEvaluationConfig resolves it (with and without the legacy allow_matching_unknown flag beside it)"""
    import shutil
    import tempfile

    from perception_eval.config import PerceptionEvaluationConfig

    got = []
    for legacy in ({}, {"allow_matching_unknown": True}):
        tmp = tempfile.mkdtemp(prefix="verif_enum_")
        try:
            d = dict({"evaluation_task": "detection", "target_labels": ["car"], "label_prefix": "autoware", "max_x_position": 10.0, "max_y_position": 10.0,
                      "center_distance_thresholds": [1.0], "plane_distance_thresholds": [1.0], "iou_2d_thresholds": [0.5], "iou_3d_thresholds": [0.5],
                      "min_point_numbers": [0], "matching_label_policy": s}, **legacy)
            got.append(PerceptionEvaluationConfig([], "base_link", tmp, d).label_params["matching_label_policy"])
        finally:
            shutil.rmtree(tmp, ignore_errors=True)
    if got[0] is not got[1]:
        return "policy depends on the legacy flag: %r / %r" % (got[0], got[1])
    return got[0]


def _inputs(name, members, rng):
    vals = [m.value for m in members]
    ins = []
    for v in vals:
        ins += [v, v.upper(), v.lower(), v.title()]
        ins += [v + "x", " " + v, v[:-1]]
    ins += [m.name for m in members]
    ins += ["", "foo", "none", "v0-40", "v40-60", "v60-80", "v80-100", "V0-40", "not available", "bounding_box ", "base-link", "Détection"]
    for _ in range(20):
        ins.append("".join(rng.choice("abcdefgxyz_-0123456789 ") for _ in range(rng.randint(1, 12))))
    seen, out = set(), []
    for s in ins:
        if s not in seen:
            seen.add(s)
            out.append(s)
    # parsing is a function of the string: every input is parsed a second time, in reverse order, after all the others have been seen
    return out + out[::-1]


def _call_sites():
    """(name, observation with string spelling, observation with enum spelling) -- computed lazily, exceptions are observations"""
    import numpy as np
    from pyquaternion import Quaternion

    from perception_eval.common.evaluation_task import EvaluationTask
    from perception_eval.common.label import LabelConverter
    from perception_eval.common.schema import FrameID
    from perception_eval.common.shape import Shape, ShapeType
    from perception_eval.common.transform import HomogeneousMatrix, TransformDict, TransformKey

    def obs(fn):
        try:
            return fn()
        except Exception as ex:
            return "raised %s" % type(ex).__name__

    sites = []
    for st in ShapeType:
        if st == ShapeType.BOUNDING_BOX:
            def mk(arg):
                s = Shape(arg, (2.0, 4.0, 1.5))
                return repr((type(s.type).__name__, s.type == ShapeType.BOUNDING_BOX, s.type is ShapeType.BOUNDING_BOX, list(s.footprint.exterior.coords), tuple(s.size)))
            sites.append(("Shape(%s)" % st.value, obs(lambda: mk(st.value)), obs(lambda: mk(st))))
    from shapely.geometry import Polygon

    tri = Polygon([(1.0, 0.0, 0.0), (0.0, 1.0, 0.0), (-1.0, -1.0, 0.0)])
    for st in ShapeType:
        def mkf(arg):
            s = Shape(arg, (2.0, 4.0, 1.5), tri)
            return repr((type(s.type).__name__, s.type is st, list(s.footprint.exterior.coords), tuple(s.size)))
        sites.append(("Shape(%s, footprint)" % st.value, obs(lambda: mkf(st.value)), obs(lambda: mkf(st))))
    # a string that names no member is rejected with or without a footprint (observation = the exception type), like the bare parser
    for bad in ("circle", "POLYGON ", ""):
        sites.append(("Shape(non-member %r, footprint)" % bad, obs(lambda: repr(type(Shape(bad, (2.0, 4.0, 1.5), tri).type).__name__)), obs(lambda: repr(ShapeType.from_value(bad)))))
    from perception_eval.common.evaluation_task import set_task_lists

    tasks = list(EvaluationTask)
    for name_, order in (("reversed", tasks[::-1]), ("with-repeats", [tasks[1], tasks[0], tasks[1], tasks[-1], tasks[0]]), ("single", [tasks[3]]), ("empty", [])):
        sites.append(("set_task_lists(%s)" % name_, obs(lambda: repr(set_task_lists([t.value for t in order]))), obs(lambda: repr(list(order)))))
    for a in FrameID:
        for c in (FrameID.BASE_LINK, FrameID.MAP):
            def tk(x, y):
                k = TransformKey(x, y)
                return repr((type(k.src).__name__, type(k.dst).__name__, hash(k) == hash(TransformKey(a, c)), k == TransformKey(a, c), str(k)))
            sites.append(("TransformKey(%s,%s)" % (a.value, c.value), obs(lambda: tk(a.value, c.value)), obs(lambda: tk(a, c))))

            def hm(x, y):
                m = HomogeneousMatrix((1.0, 2.0, 3.0), Quaternion(), src=x, dst=y)
                return repr((type(m.src).__name__, m.src is a, m.dst is c))
            sites.append(("HomogeneousMatrix(%s,%s)" % (a.value, c.value), obs(lambda: hm(a.value, c.value)), obs(lambda: hm(a, c))))

            def td(x, y):
                m = HomogeneousMatrix((1.0, 2.0, 3.0), Quaternion(), src=a, dst=c)
                d = TransformDict(m)
                p = d.transform((x, y), (1.0, 1.0, 1.0))
                return repr([round(float(v), 9) for v in p])
            sites.append(("TransformDict.transform(%s,%s)" % (a.value, c.value), obs(lambda: td(a.value, c.value)), obs(lambda: td(a, c))))
            # FrameID.from_value ignores letter case, so every case variant of a frame name is a string spelling of the member; inverse
            # direction and item access as well
            for variant, f in (("upper", str.upper), ("lower", str.lower)):
                sites.append(("TransformKey(%s,%s):%s" % (a.value, c.value, variant), obs(lambda: tk(f(a.value), f(c.value))), obs(lambda: tk(a, c))))
                sites.append(("HomogeneousMatrix(%s,%s):%s" % (a.value, c.value, variant), obs(lambda: hm(f(a.value), f(c.value))), obs(lambda: hm(a, c))))
                sites.append(("TransformDict.transform(%s,%s):%s" % (a.value, c.value, variant), obs(lambda: td(f(a.value), f(c.value))), obs(lambda: td(a, c))))
                sites.append(("TransformDict.transform(%s,%s):inverse:%s" % (a.value, c.value, variant), obs(lambda: td(f(c.value), f(a.value))), obs(lambda: td(c, a))))

            def item(x, y):
                m = HomogeneousMatrix((1.0, 2.0, 3.0), Quaternion(), src=a, dst=c)
                d = TransformDict(m)
                return repr(((x, y) in d if hasattr(d, "__contains__") else None, d[(x, y)].position.tolist(), d.get((x, y)).position.tolist()))
            for variant, f in (("value", str), ("upper", str.upper)):
                sites.append(("TransformDict[](%s,%s):%s" % (a.value, c.value, variant), obs(lambda: item(f(a.value), f(c.value))), obs(lambda: item(a, c))))
    for t in EvaluationTask:
        for prefix in ("autoware", "traffic_light"):
            def lc(arg):
                conv = LabelConverter(arg, False, prefix)
                return repr((conv.evaluation_task is t, [(i.label.value, i.name) for i in conv.label_infos]))
            sites.append(("LabelConverter(%s,%s)" % (t.value, prefix), obs(lambda: lc(t.value)), obs(lambda: lc(t))))
        sites.append(("FrameID.from_task(%s)" % t.value, obs(lambda: repr(FrameID.from_task(t.value))), obs(lambda: repr(FrameID.from_task(t)))))
    return sites


def run(ctx: Ctx):
    res = T.run_tlc("MC_Enums", allow_violation=False, timeout=1200)
    ctx.add_tlc(res, "MC_Enums (all 2-member tables x inputs over {A,B,a,b}^<=2)")
    rng = random.Random(ctx.seed)
    events = []
    info = {}
    tid = 0
    for name, enum, fn, rt_only in _parsers():
        members = list(enum)
        tid += 1
        events.append(dict(tid=tid, ev="Table", enum=name, members=[b(m.value) for m in members]))
        info[tid] = dict(enum=name, table=[m.value for m in members])
        for s in _inputs(name, members, rng):
            if fn is _policy_via_config and not s:
                continue      # an empty entry means "not configured"
            tid += 1
            try:
                r = fn(s)
                if isinstance(r, enum):
                    kind, idx = "member", members.index(r) + 1
                    if not any(r is m for m in members):
                        kind = "str"
                elif isinstance(r, str):
                    kind, idx = "str", 0
                elif r is None:
                    kind, idx = "none", 0
                else:
                    kind, idx = "str", 0
            except Exception:
                kind, idx = "error", 0
            events.append(dict(tid=tid, ev="Parse", enum=name, members=[b(m.value) for m in members], input=b(s), kind=kind, idx=idx, roundtrip_only=rt_only))
            info[tid] = dict(enum=name, parser=getattr(fn, "__qualname__", str(fn)), input=s, returned_kind=kind, member=(members[idx - 1].name if idx else None))
            ctx.evaluations += 1
            if any(s == m.value for m in members) or s.lower() in [m.value.lower() for m in members]:
                ctx.nontriv((name, fn.__name__, s))
    for sname, o1, o2 in _call_sites():
        tid += 1
        events.append(dict(tid=tid, ev="Site", site=sname, obs_str=o1, obs_enum=o2))
        info[tid] = dict(site=sname, obs_str=o1[:200], obs_enum=o2[:200])
        ctx.evaluations += 1
        ctx.nontriv(("site", sname))
    rej = trace.validate(ctx, "Trace_Enums", events)
    ctx.traces += len(events)
    for t_, line, clause in rej:
        i = info[t_]
        if "site" in i:
            sig = "site:%s:%s" % (i["site"].split("(")[0], clause)
        else:
            sig = "parse:%s:%s" % (i["parser"], clause)
        ctx.violation(sig, "%s -> %s" % (i, clause), i)
    ctx.sample(info[2])
    ctx.sample(info[tid])
    ctx.exhaustive = True
    ctx.rule = (
        "every member of every configuration enum (introspected), its upper/lower/title-case spellings, near misses, member names, aliases and random "
        "strings are parsed by the real constructor and each call is validated by TLC against Enums!Parse (documented case folding and fallback); "
        "every string-or-enum call site (Shape, TransformKey, HomogeneousMatrix, TransformDict.transform, LabelConverter, FrameID.from_task) is observed "
        "under both spellings. MC_Enums proves the round-trip / case / rejection laws of Parse for all small tables. Non-trivial = input that is a "
        "member value in some case, or a call site; distinct by (parser, input)."
    )
    ctx.assumptions += ["set_task documents no behaviour for non-members: only the round-trip law is applied to it"]
