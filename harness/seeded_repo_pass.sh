#!/bin/sh
# Apply each confirmed seeded change to /repo itself, run the quick check of its property, restore /repo.
# usage: harness/seeded_repo_pass.sh [ids...]   (default: all of seeded/*/)   results: seeded/repo_pass.tsv
cd "$(dirname "$0")/.." || exit 2
out=seeded/repo_pass.tsv
[ $# -eq 0 ] && set -- $(ls -d seeded/*/ | xargs -n1 basename)
if [ -n "$(git -C /repo status --porcelain)" ]; then echo "/repo is not clean"; exit 2; fi
for id in "$@"; do
  pid=$(jq -r .property seeded/$id/meta.json)
  git -C /repo apply "$PWD/seeded/$id/patch.diff" || { echo "$id	$pid	apply-failed" >> $out; continue; }
  start=$(date +%s)
  ./check $pid > out/repo_pass_$id.log 2>&1; rc=$?
  git -C /repo checkout -- .
  nv=$(grep -c '^VIOLATION' out/repo_pass_$id.log)
  echo "$id	$pid	exit=$rc	violation_lines=$nv	$(( $(date +%s) - start ))s" >> $out
done
