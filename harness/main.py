"""./check <property id> [--tier quick|thorough] [--replay file]"""
from __future__ import annotations

import argparse
import importlib
import os
import sys
import traceback

ROOT = os.path.dirname(os.path.dirname(os.path.abspath(__file__)))
sys.path.insert(0, ROOT)

REGISTRY = {
    "C01": "matching",
    "C02": "matching",
    "C03": "passfail",
    "C04": "ap",
    "C08": "monotone",
    "C09": "heading",
    "C10": "filtering",
    "C11": "idmatching",
    "C12": "sensing",
    "C13": "history",
    "C14": "labels",
    "C15": "config",
    "C16": "dataset",
    "C17": "timeline",
    "C18": "transforms",
    "C19": "analyzer",
    "C20": "enums",
    "C06": "scores",
    "C07": "frames",
    "C05": "clear",
}


def main():
    ap = argparse.ArgumentParser()
    ap.add_argument("pid")
    ap.add_argument("--tier", default=os.environ.get("VERIF_TIER", "quick"))
    ap.add_argument("--replay", default=None)
    a = ap.parse_args()
    seed = int(os.environ.get("VERIF_SEED", "20260927"))
    repo = os.environ.get("VERIF_REPO")
    if repo:
        sys.path.insert(0, os.path.join(repo, "perception_eval"))
    import logging

    logging.disable(logging.CRITICAL)
    from harness import tlc
    from harness.core import Ctx

    if a.pid == "selftest":
        from harness import selftest

        return selftest.main()
    if a.pid not in REGISTRY:
        print("unknown property", a.pid)
        return 2
    tier = a.tier if a.tier in ("quick", "thorough") else "quick"
    ctx = Ctx(a.pid, tier, seed)
    mod = importlib.import_module("harness.props." + REGISTRY[a.pid])
    try:
        if a.replay:
            return mod.replay(ctx, a.replay)
        mod.run(ctx)
    except tlc.TlcError as ex:
        msg = str(ex).strip()
        os.makedirs(os.path.join(tlc.OUT, a.pid), exist_ok=True)
        with open(os.path.join(tlc.OUT, a.pid, "machinery_failure.txt"), "w") as f:
            f.write(msg + "\n")
        print(msg)
        print("MACHINERY-FAILURE %s: %s" % (a.pid, " | ".join(msg.splitlines()[-3:])[:600]))
        return 2
    except Exception:
        tb = traceback.format_exc()
        # an exception raised INSIDE the library (below the last harness frame) on an input the check considers legal is a verdict about the
        # library, not a failure of the machinery: the statement promises a result for every such input
        import re

        # an exception from a pool worker arrives as a remote traceback followed by the parent's own frames: the original one comes first
        first = re.split(r"The above exception was the direct cause|During handling of the above exception", tb)[0]
        files = re.findall(r'File "([^"]+)", line (\d+), in (\S+)', first)
        last_h = max([i for i, f in enumerate(files) if "/harness/" in f[0]] or [-1])
        lib = [f for f in files[last_h + 1:] if "/perception_eval/perception_eval/" in f[0]]
        if lib:
            where = "%s:%s" % (os.path.basename(lib[-1][0]), lib[-1][2])
            ctx.violation("raised-in-library:" + where, "the library raised on an input of the check: %s" % tb.strip().splitlines()[-1][:300], {"traceback": tb[-6000:]})
            return ctx.finish()
        print(tb)
        print("MACHINERY-FAILURE %s (harness exception)" % a.pid)
        return 2
    return ctx.finish()


def _main_with_private_tmp():
    """every temporary directory of the run (also those of pool workers, whose atexit handlers do not run) lives under one root that is
    removed when the check ends"""
    import shutil
    import tempfile

    root = tempfile.mkdtemp(prefix="verif_run_")
    os.environ["TMPDIR"] = root
    tempfile.tempdir = root
    try:
        return main()
    finally:
        shutil.rmtree(root, ignore_errors=True)


if __name__ == "__main__":
    sys.exit(_main_with_private_tmp())
