"""Reader for TLA+ values as printed by TLC (`-dump`, `-simulate file=`, PrintT).

Python images: integers -> int, strings -> str, booleans -> bool, sequences / tuples
-> tuple, sets -> frozenset, records -> dict (str keys), functions
`(a :> 1 @@ b :> 2)` -> dict, model values / identifiers -> ModelValue(str).
"""
from __future__ import annotations

import re


class ModelValue(str):
    def __repr__(self):
        return "MV(%s)" % str.__repr__(self)


class FrozenDict(dict):
    """hashable dict so that records/functions can be members of sets"""

    def __hash__(self):
        return hash(frozenset(self.items()))


_TOKEN = re.compile(
    r"""\s*(?:
      (?P<str>"(?:[^"\\]|\\.)*")
    | (?P<int>-?\d+)
    | (?P<op><<|>>|\|->|:>|@@|\.\.|[\[\]{}(),])
    | (?P<id>[A-Za-z_][A-Za-z0-9_!]*)
    )""",
    re.X,
)


def tokenize(text: str):
    pos = 0
    n = len(text)
    out = []
    while pos < n:
        m = _TOKEN.match(text, pos)
        if not m:
            if text[pos:].strip() == "":
                break
            raise ValueError("cannot tokenize TLA+ value at %r" % text[pos : pos + 40])
        pos = m.end()
        kind = m.lastgroup
        out.append((kind, m.group(kind)))
    return out


class _P:
    def __init__(self, toks):
        self.t = toks
        self.i = 0

    def peek(self):
        return self.t[self.i] if self.i < len(self.t) else (None, None)

    def eat(self, val=None):
        k, v = self.t[self.i]
        if val is not None and v != val:
            raise ValueError("expected %r got %r" % (val, v))
        self.i += 1
        return k, v

    def value(self):
        k, v = self.peek()
        if k == "int":
            self.eat()
            # interval a..b
            if self.peek() == ("op", ".."):
                self.eat()
                _, hi = self.eat()
                return frozenset(range(int(v), int(hi) + 1))
            return int(v)
        if k == "str":
            self.eat()
            return bytes(v[1:-1], "utf-8").decode("unicode_escape")
        if k == "id":
            self.eat()
            if v == "TRUE":
                return True
            if v == "FALSE":
                return False
            return ModelValue(v)
        if v == "<<":
            self.eat()
            items = []
            while self.peek()[1] != ">>":
                items.append(self.value())
                if self.peek()[1] == ",":
                    self.eat()
            self.eat(">>")
            return tuple(items)
        if v == "{":
            self.eat()
            items = []
            while self.peek()[1] != "}":
                items.append(self.value())
                if self.peek()[1] == ",":
                    self.eat()
            self.eat("}")
            return frozenset(items)
        if v == "[":
            self.eat()
            d = FrozenDict()
            while self.peek()[1] != "]":
                _, key = self.eat()
                self.eat("|->")
                d[key] = self.value()
                if self.peek()[1] == ",":
                    self.eat()
            self.eat("]")
            return d
        if v == "(":
            self.eat()
            d = FrozenDict()
            while True:
                key = self.value()
                self.eat(":>")
                d[key] = self.value()
                if self.peek()[1] == "@@":
                    self.eat()
                    continue
                break
            self.eat(")")
            return d
        raise ValueError("unexpected token %r" % (v,))


def parse_value(text: str):
    p = _P(tokenize(text))
    v = p.value()
    if p.i != len(p.t):
        raise ValueError("trailing tokens in %r" % text[:80])
    return v


_STATE_HDR = re.compile(r"^State (\d+):")


def iter_dump_states(path: str):
    """Yield dict var -> value for every state of a TLC `-dump` file."""
    buf = []
    with open(path) as f:
        for line in f:
            if _STATE_HDR.match(line):
                if buf:
                    yield parse_state("".join(buf))
                buf = []
            else:
                buf.append(line)
    if buf and "".join(buf).strip():
        yield parse_state("".join(buf))


_CONJ = re.compile(r"^/\\ ([A-Za-z_][A-Za-z0-9_]*) = ", re.M)


def parse_state(text: str):
    """text: `/\\ v1 = ...\\n/\\ v2 = ...` (values may span lines)."""
    text = text.strip()
    if not text.startswith("/\\"):
        # single variable: `v = value`
        name, _, val = text.partition(" = ")
        return {name.strip(): parse_value(val)}
    out = {}
    ms = list(_CONJ.finditer(text))
    for k, m in enumerate(ms):
        end = ms[k + 1].start() if k + 1 < len(ms) else len(text)
        out[m.group(1)] = parse_value(text[m.end() : end])
    return out


def to_tla(v) -> str:
    """Python value -> TLA+ expression (used to emit literal constants)."""
    if isinstance(v, bool):
        return "TRUE" if v else "FALSE"
    if isinstance(v, int):
        return str(v)
    if isinstance(v, ModelValue):
        return str(v)
    if isinstance(v, str):
        return '"%s"' % v.replace("\\", "\\\\").replace('"', '\\"')
    if isinstance(v, (tuple, list)):
        return "<<" + ", ".join(to_tla(x) for x in v) + ">>"
    if isinstance(v, (set, frozenset)):
        return "{" + ", ".join(sorted(to_tla(x) for x in v)) + "}"
    if isinstance(v, dict):
        if all(isinstance(k, str) and not isinstance(k, ModelValue) and re.match(r"^[A-Za-z_]\w*$", k) for k in v):
            return "[" + ", ".join("%s |-> %s" % (k, to_tla(x)) for k, x in v.items()) + "]"
        if not v:
            return "<<>>"
        return "(" + " @@ ".join("%s :> %s" % (to_tla(k), to_tla(x)) for k, x in v.items()) + ")"
    raise TypeError(type(v))


def iter_sim_behaviours(prefix_dir: str):
    """Behaviours written by `tlc -simulate file=<prefix>,num=N`: one file per behaviour with
    `\\* <Action ...>` comment lines followed by `STATE_n == /\\ ...` definitions."""
    import glob
    import os

    for fn in sorted(glob.glob(prefix_dir + "*")):
        if os.path.isdir(fn):
            continue
        txt = open(fn).read()
        states = []
        parts = re.split(r"^STATE_\d+ ==\s*$|^STATE_\d+ == ", txt, flags=re.M)
        acts = re.findall(r"^\\\* <?([A-Za-z_0-9]+)", txt, flags=re.M)
        for p in parts[1:]:
            body = p.split("\n\n")[0]
            body = re.split(r"^\\\*", body, flags=re.M)[0]
            states.append(parse_state(body))
        yield fn, acts, states


def iter_dump_blocks(path: str):
    """raw text of each state of a `-dump` file (no parsing)"""
    buf = []
    with open(path) as f:
        for line in f:
            if line.startswith("State ") and _STATE_HDR.match(line):
                if buf:
                    yield "".join(buf)
                buf = []
            else:
                buf.append(line)
    if buf and "".join(buf).strip():
        yield "".join(buf)


def _parse_many(blocks):
    return [parse_state(b) for b in blocks]


def load_dump(path: str, must_contain: str | None = None, procs: int = 16):
    """parse a dump in parallel; only blocks containing `must_contain` are parsed.
    returns (list of states, total number of states in the dump)"""
    import multiprocessing as mp

    blocks = []
    total = 0
    for b in iter_dump_blocks(path):
        total += 1
        if must_contain is None or must_contain in b:
            blocks.append(b)
    if len(blocks) < 2000 or procs <= 1:
        return _parse_many(blocks), total
    n = max(1, len(blocks) // (procs * 4))
    chunks = [blocks[i : i + n] for i in range(0, len(blocks), n)]
    with mp.get_context("fork").Pool(procs) as pool:
        out = []
        for part in pool.imap(_parse_many, chunks):
            out.extend(part)
    return out, total
