"""Confirm and file a seeded change produced by a sub-agent.
usage: python3 harness/seeded.py <Cnn> <worktree> [--checks C01,C02] [--no-suite]
Confirms in the scratch worktree: demo fails with the change / passes without, the unedited suite passes with the change;
then runs the named checks against the worktree (VERIF_REPO) and files patch, demo and meta.json under /verif/seeded/<id>/."""
import json
import os
import shutil
import subprocess
import sys
import time

V = os.path.dirname(os.path.dirname(os.path.abspath(__file__)))


def sh(cmd, cwd=None, env=None, timeout=3600):
    e = dict(os.environ)
    if env:
        e.update(env)
    p = subprocess.run(cmd, shell=True, cwd=cwd, env=e, stdout=subprocess.PIPE, stderr=subprocess.STDOUT, text=True, timeout=timeout)
    return p.returncode, p.stdout


def main():
    pid, wt = sys.argv[1], sys.argv[2]
    checks = [pid]
    suite = True
    name = pid
    for a in sys.argv[3:]:
        if a.startswith("--checks"):
            checks = a.split("=")[1].split(",")
        if a == "--no-suite":
            suite = False
        if a.startswith("--name"):
            name = a.split("=")[1]
    env = {"PYTHONPATH": os.path.join(wt, "perception_eval")}
    demo = "demo_%s.py" % pid
    meta = {"property": pid, "worktree_base": sh("git rev-parse --short HEAD", cwd=wt)[1].strip(), "ran": []}
    rc, diff = sh("git diff -- perception_eval", cwd=wt)
    assert diff.strip(), "no change in worktree"
    rc1, out1 = sh("/venv/bin/python -W ignore %s" % demo, cwd=wt, env=env)
    meta["demo_with_change"] = {"exit": rc1, "tail": out1.strip().splitlines()[-3:]}
    # (git stash is shared between worktrees of one repository: reverse-apply the diff instead)
    tmpd = os.path.join(wt, ".seeded_change.diff")
    open(tmpd, "w").write(diff)
    sh("git apply -R .seeded_change.diff", cwd=wt)
    rc0, out0 = sh("/venv/bin/python -W ignore %s" % demo, cwd=wt, env=env)
    sh("git apply .seeded_change.diff", cwd=wt)
    os.remove(tmpd)
    meta["demo_without_change"] = {"exit": rc0, "tail": out0.strip().splitlines()[-3:]}
    ok = rc1 != 0 and rc0 == 0
    if suite:
        t0 = time.time()
        rcs, outs = sh("/venv/bin/python -m pytest -q -p no:cacheprovider --timeout=900 -x 2>&1 | tail -3", cwd=wt, env=env)
        meta["suite_with_change"] = outs.strip().splitlines()[-1:]
        meta["suite_seconds"] = round(time.time() - t0)
        ok = ok and "passed" in outs and "failed" not in outs
    meta["confirmed"] = ok
    det = {}
    for c in checks:
        rc, out = sh("./check %s --tier quick" % c, cwd=V, env={"VERIF_REPO": wt, "VERIF_SCRATCH": os.path.join(wt, ".verif_scratch")}, timeout=3600)
        vio = [l for l in out.splitlines() if l.startswith("VIOLATION") or "signature=" in l]
        det[c] = {"exit": rc, "violations": [v[:300] for v in vio[:12]]}
        meta["ran"].append("VERIF_REPO=%s ./check %s --tier quick -> exit %d" % (wt, c, rc))
    meta["detected_by"] = [c for c, d in det.items() if d["exit"] == 1]
    meta["detection"] = det
    notes = os.path.join(wt, "notes.txt")
    meta["needs_to_manifest"] = open(notes).read()[:1500] if os.path.exists(notes) else ""
    dst = os.path.join(V, "seeded", name)
    os.makedirs(dst, exist_ok=True)
    open(os.path.join(dst, "patch.diff"), "w").write(diff)
    shutil.copy(os.path.join(wt, demo), os.path.join(dst, demo))
    json.dump(meta, open(os.path.join(dst, "meta.json"), "w"), indent=1)
    print(json.dumps({k: meta[k] for k in ("confirmed", "detected_by", "demo_with_change", "demo_without_change")}, indent=1))
    for c, d in det.items():
        print(c, d["exit"], d["violations"][:4])


if __name__ == "__main__":
    main()
