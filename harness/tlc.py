"""Run TLC and parse what it reports (states, transitions, coverage, violations)."""
from __future__ import annotations

import os
import re
import shutil
import subprocess
import time

VERIF = os.path.dirname(os.path.dirname(os.path.abspath(__file__)))
SPEC = os.path.join(VERIF, "spec")
# VERIF_SCRATCH: side runs (other seeds, scratch worktrees) keep their output and evidence away from the committed ones
SCRATCH = os.environ.get("VERIF_SCRATCH")
OUT = os.path.join(SCRATCH or VERIF, "out")
JAR = "/opt/veriftools/tla/tla2tools.jar"
DEPS = "/opt/veriftools/tla/CommunityModules-deps.jar"


class TlcError(RuntimeError):
    """machinery failure (TLC crashed / spec does not parse) -> exit 2"""


class TlcResult:
    def __init__(self):
        self.generated = 0
        self.distinct = 0
        self.depth = 0
        self.coverage = {}  # action -> (distinct, total)
        self.violated = []  # names of violated invariants / properties
        self.error_trace = []  # list of raw state texts (first violation)
        self.output = ""
        self.wall = 0.0
        self.finished = False
        self.printed = []  # PrintT lines
        self.cmd = ""

    @property
    def ok(self):
        return self.finished and not self.violated


def _parse(out: str, res: TlcResult):
    m = None
    for m in re.finditer(r"(\d+) states generated, (\d+) distinct states found, (\d+) states left on queue", out):
        pass
    if m:
        res.generated, res.distinct = int(m.group(1)), int(m.group(2))
    m = re.search(r"The depth of the complete state graph search is (\d+)", out)
    if m:
        res.depth = int(m.group(1))
    # simulation mode statistics
    m = re.search(r"The number of states generated: (\d+)", out)
    if m and not res.generated:
        res.generated = res.distinct = int(m.group(1))
    for m in re.finditer(r"^<(\w+) line \d+, col \d+ to line \d+, col \d+ of module (\w+)>: (\d+):(\d+)", out, re.M):
        name = m.group(1)
        d, t = int(m.group(3)), int(m.group(4))
        od, ot = res.coverage.get(name, (0, 0))
        res.coverage[name] = (od + d, ot + t)
    for m in re.finditer(r"Error: Invariant (\w+) is violated", out):
        res.violated.append(m.group(1))
    for m in re.finditer(r"Error: Action property (\w+) is violated", out):
        res.violated.append(m.group(1))
    if re.search(r"Error: Temporal properties were violated", out):
        res.violated.append("TemporalProperty")
    if re.search(r"Error: Deadlock reached", out):
        res.violated.append("Deadlock")
    if re.search(r"Error: The postcondition .* false|Error: Evaluating the postcondition|POSTCONDITION.*violated", out):
        res.violated.append("Postcondition")
    if re.search(r"Error: Evaluating assumption|Assumption .* is false", out):
        res.violated.append("Assumption")
    if "The behavior up to this point is" in out:
        body = out.split("The behavior up to this point is:", 1)[1]
        body = re.split(r"^(?:The coverage statistics|\d+ states generated|Finished in|Error: )", body, flags=re.M)[0]
        res.error_trace = [s.strip() for s in re.split(r"^State \d+: .*$", body, flags=re.M) if s.strip()]
    res.finished = bool(re.search(r"^Finished in ", out, re.M)) or "Model checking completed" in out
    res.printed = []


def run_tlc(
    module: str,
    cfg: str | None = None,
    *,
    tag: str | None = None,
    workers: int | str = 16,
    dump: bool = False,
    simulate: str | None = None,
    depth: int | None = None,
    seed: int | None = None,
    env: dict | None = None,
    timeout: float | None = 3600,
    coverage: bool = True,
    deadlock: bool = False,
    heap: str = "8g",
    dfs: bool = False,
    allow_violation: bool = True,
    spec_dir: str = SPEC,
    extra: list | None = None,
) -> TlcResult:
    """module: `MC_X` (file spec/MC_X.tla); cfg defaults to spec/MC_X.cfg."""
    tag = tag or module
    work = os.path.join(OUT, "tlc", tag)
    shutil.rmtree(work, ignore_errors=True)
    os.makedirs(work, exist_ok=True)
    cfgp = cfg if cfg and os.path.isabs(cfg) else os.path.join(spec_dir, cfg or module + ".cfg")
    jopts = ["-XX:+UseParallelGC", "-Xss256m", "-Xmx" + heap, "-DTLA-Library=" + SPEC]
    if os.environ.get("TMPDIR"):     # TLC unpacks its standard modules into a fresh java temp directory per run: keep it with the run's other scratch
        jopts.append("-Djava.io.tmpdir=" + os.environ["TMPDIR"])
    if dfs:
        jopts.append("-Dtlc2.tool.queue.IStateQueue=StateDeque")
    cmd = ["java"] + jopts + ["-cp", JAR + ":" + DEPS, "tlc2.TLC"]
    cmd += ["-workers", str(workers), "-metadir", os.path.join(work, "meta"), "-noGenerateSpecTE"]
    cmd += ["-config", cfgp]
    if coverage:
        cmd += ["-coverage", "1"]
    if not deadlock:
        cmd += ["-deadlock"]  # -deadlock DISABLES deadlock checking
    if dump:
        cmd += ["-dump", os.path.join(work, "states")]
    if simulate is not None:
        cmd += ["-simulate", simulate]
    if depth is not None:
        cmd += ["-depth", str(depth)]
    if seed is not None:
        cmd += ["-seed", str(seed)]
    if extra:
        cmd += extra
    cmd += [os.path.join(spec_dir, module + ".tla")]
    e = dict(os.environ)
    e.pop("JAVA_TOOL_OPTIONS", None)
    if env:
        e.update({k: str(v) for k, v in env.items()})
    t0 = time.time()
    res = TlcResult()
    res.cmd = " ".join(cmd)
    try:
        p = subprocess.run(cmd, cwd=spec_dir, env=e, stdout=subprocess.PIPE, stderr=subprocess.STDOUT, timeout=timeout, text=True)
        out = p.stdout
        res.timed_out = False
    except subprocess.TimeoutExpired as ex:
        out = (ex.stdout or b"").decode() if isinstance(ex.stdout, bytes) else (ex.stdout or "")
        res.timed_out = True
        subprocess.run(["pkill", "-f", os.path.join(work, "meta")], check=False)
    res.wall = time.time() - t0
    res.output = out
    with open(os.path.join(work, "tlc.out"), "w") as f:
        f.write(res.cmd + "\n" + out)
    _parse(out, res)
    res.work = work
    res.dump_path = os.path.join(work, "states.dump") if dump else None
    # machinery failures
    if re.search(r"Error: .*(?:Parsing or semantic analysis failed|TLC threw an unexpected exception|java\.lang\.|Unknown operator|The exception was a)", out) or (
        "Semantic errors" in out or "*** Errors:" in out or "Fatal errors" in out
    ):
        if not res.violated or "java.lang.StackOverflowError" in out:
            raise TlcError("TLC failed on %s (see %s)\n%s" % (module, os.path.join(work, "tlc.out"), out[-3000:]))
    known = ("Invariant", "Action property", "Temporal properties", "Deadlock reached", "The behavior up to this point", "The postcondition")
    for ln in out.splitlines():
        if ln.startswith("Error: ") and not any(k in ln for k in known):
            raise TlcError("TLC error on %s: %s (see %s)\n%s" % (module, ln, os.path.join(work, "tlc.out"), out[-2500:]))
    if not res.finished and not res.timed_out and not res.violated:
        raise TlcError("TLC did not finish on %s (see %s)\n%s" % (module, os.path.join(work, "tlc.out"), out[-3000:]))
    if res.violated and not allow_violation:
        raise TlcError("unexpected violation in %s: %s\n%s" % (module, res.violated, out[-3000:]))
    shutil.rmtree(os.path.join(work, "meta"), ignore_errors=True)
    return res


def never_taken(res: TlcResult, actions):
    """vacuity: names in `actions` with no distinct successor state."""
    return [a for a in actions if res.coverage.get(a, (0, 0))[1] == 0]


GEN = os.path.join(OUT, "gen")


def make_model(base: str, name: str, consts: dict, *, init="Init", next="Next", invariants=(), properties=(),
               constraint=None, model_values=("None",), view=None, postcondition=None, extra_defs="", extends=()):
    """Generate out/gen/<name>.tla + .cfg: a wrapper that EXTENDS `base` and binds every declared
    CONSTANT of `base` to a literal TLA+ expression (cfg files cannot hold tuples / records)."""
    os.makedirs(GEN, exist_ok=True)
    lines = ["---- MODULE %s ----" % name, "EXTENDS " + ", ".join((base,) + tuple(extends))]
    cfg = ["CONSTANTS"]
    for mv in model_values:
        cfg.append("  %s = %s" % (mv, mv))
    for k, v in consts.items():
        lines.append("c_%s == %s" % (k, v))
        cfg.append("  %s <- c_%s" % (k, k))
    if extra_defs:
        lines.append(extra_defs)
    lines.append("====")
    cfg.append("INIT %s" % init)
    cfg.append("NEXT %s" % next)
    for i in invariants:
        cfg.append("INVARIANT %s" % i)
    for p_ in properties:
        cfg.append("PROPERTY %s" % p_)
    if constraint:
        cfg.append("CONSTRAINT %s" % constraint)
    if view:
        cfg.append("VIEW %s" % view)
    if postcondition:
        cfg.append("POSTCONDITION %s" % postcondition)
    cfg.append("CHECK_DEADLOCK FALSE")
    with open(os.path.join(GEN, name + ".tla"), "w") as f:
        f.write("\n".join(lines) + "\n")
    with open(os.path.join(GEN, name + ".cfg"), "w") as f:
        f.write("\n".join(cfg) + "\n")
    return name


def run_model(base, name, consts, *, tlc_kwargs=None, **mk):
    make_model(base, name, consts, **mk)
    kw = dict(tlc_kwargs or {})
    return run_tlc(name, os.path.join(GEN, name + ".cfg"), spec_dir=GEN, **kw)
