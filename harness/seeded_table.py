"""Regenerate the seeded-change table of DESIGN.md (between the SEEDED-TABLE markers) from seeded/*/meta.json."""
import glob
import json
import os
import re

V = os.path.dirname(os.path.dirname(os.path.abspath(__file__)))
NOTES = {}
np_ = os.path.join(V, "seeded", "notes.json")
if os.path.exists(np_):
    NOTES = json.load(open(np_))
rows = ["| id | property | change (file) | needs, in order to manifest | caught by | remark |", "|---|---|---|---|---|---|"]
for d in sorted(glob.glob(os.path.join(V, "seeded", "*", "meta.json"))):
    name = os.path.basename(os.path.dirname(d))
    m = json.load(open(d))
    diff = open(os.path.join(os.path.dirname(d), "patch.diff")).read()
    files = sorted(set(re.findall(r"^\+\+\+ b/perception_eval/perception_eval/(\S+)", diff, re.M)))
    n = NOTES.get(name, {})
    det = ", ".join("%s" % c for c in m.get("detected_by", [])) or "**missed**"
    rows.append("| %s | %s | %s (%s) | %s | %s | %s |" % (name, m["property"], n.get("change", ""), ", ".join(files), n.get("needs", ""), det, n.get("remark", "")))
table = "\n".join(rows)
p = os.path.join(V, "DESIGN.md")
s = open(p).read()
if "<!-- SEEDED-TABLE -->" in s:
    s = re.sub(r"<!-- SEEDED-TABLE -->.*<!-- /SEEDED-TABLE -->", "<!-- SEEDED-TABLE -->\n" + table + "\n<!-- /SEEDED-TABLE -->", s, flags=re.S)
else:
    s += "\n<!-- SEEDED-TABLE -->\n" + table + "\n<!-- /SEEDED-TABLE -->\n"
open(p, "w").write(s)
print(table)
