"""Batch trace validation: write ndjson, run a Trace_* specification under TLC, collect total verdicts."""
from __future__ import annotations

import json
import os
import re

from . import tlc as T


def validate(ctx, module, events, tag=None, heap="6g", cfg=None, spec_dir=None):
    """events: list of dicts each with 'tid'.  Returns list of (tid, line, clause)."""
    tag = tag or "%s_%s" % (module, ctx.pid)
    path = os.path.join(ctx.out, tag + ".ndjson")
    with open(path, "w") as f:
        for ev in events:
            f.write(json.dumps(ev) + "\n")
    if not events:
        return []
    res = T.run_tlc(module, cfg, workers=1, env={"TRACE_FILE": path}, tag=tag, coverage=False, heap=heap, allow_violation=False,
                    **({"spec_dir": spec_dir} if spec_dir else {}))
    ctx.states += res.distinct
    ctx.transitions += res.generated
    if res.distinct < len(events) + 1:
        raise T.TlcError("trace %s not consumed: %d states for %d events" % (tag, res.distinct, len(events)))
    return [(int(m.group(1)), int(m.group(2)), m.group(3)) for m in re.finditer(r'<<"REJECT", (-?\d+), (\d+), "([^"]+)">>', res.output)]


def b(s: str):
    """text -> list of byte codes (TLC strings are atomic)"""
    return list(s.encode("utf-8"))
