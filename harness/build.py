"""Builders for real perception_eval objects from abstract (specification) values."""
from __future__ import annotations

import math
import logging
import warnings

warnings.filterwarnings("ignore")
logging.disable(logging.CRITICAL)

import numpy as np  # noqa: E402
from pyquaternion import Quaternion  # noqa: E402

from perception_eval.common.label import AutowareLabel, Label, TrafficLightLabel  # noqa: E402
from perception_eval.common.object import DynamicObject  # noqa: E402
from perception_eval.common.object2d import DynamicObject2D  # noqa: E402
from perception_eval.common.schema import FrameID  # noqa: E402
from perception_eval.common.shape import Shape, ShapeType  # noqa: E402
from perception_eval.common.transform import HomogeneousMatrix, TransformDict  # noqa: E402
from perception_eval.common.dataset import FrameGroundTruth  # noqa: E402
from perception_eval.evaluation.matching import MatchingMode  # noqa: E402
from perception_eval.evaluation.matching.object_matching import MatchingLabelPolicy  # noqa: E402

# (keyed by the declared member names as well: a member that became an alias of another one is still found under its own name)
AW = {**{n.lower(): m for n, m in AutowareLabel.__members__.items()}, **{m.value: m for m in AutowareLabel}}
TL = {**{n.lower(): m for n, m in TrafficLightLabel.__members__.items()}, **{m.value: m for m in TrafficLightLabel}}
MODES = {
    "center": MatchingMode.CENTERDISTANCE,
    "plane": MatchingMode.PLANEDISTANCE,
    "iou2d": MatchingMode.IOU2D,
    "iou3d": MatchingMode.IOU3D,
}
POLICIES = {p.value: p for p in MatchingLabelPolicy}


# dataset categories that the documented table converts to `unknown`: an unknown object carries one of them as its original name
UNKNOWN_NAMES = ["unknown", "animal", "forklift", "movable_object.trafficcone", "static_object.bollard"]
_unknown_count = [0]


def aw_label(name: str, attributes=()):
    raw = name
    if name == "unknown":
        _unknown_count[0] += 1
        raw = UNKNOWN_NAMES[_unknown_count[0] % len(UNKNOWN_NAMES)]
    return Label(AW[name], raw, list(attributes))


def tl_label(name: str):
    return Label(TL[name], name, [])


def yaw_quat(yaw: float, sign: int = 1) -> Quaternion:
    q = Quaternion(axis=[0.0, 0.0, 1.0], radians=yaw)
    return q if sign > 0 else Quaternion(-q.elements)


class EgoPose:
    """ego pose in the map frame: translation (tx, ty, tz) and yaw"""

    def __init__(self, tx=0.0, ty=0.0, tz=0.0, yaw=0.0):
        self.t = (float(tx), float(ty), float(tz))
        self.yaw = float(yaw)
        self.q = yaw_quat(self.yaw)

    def to_map(self, pos, yaw):
        c, s = math.cos(self.yaw), math.sin(self.yaw)
        x, y, z = pos
        return (c * x - s * y + self.t[0], s * x + c * y + self.t[1], z + self.t[2]), yaw + self.yaw

    def matrices(self):
        return [HomogeneousMatrix(self.t, self.q, src=FrameID.BASE_LINK, dst=FrameID.MAP)]

    def transforms(self) -> TransformDict:
        return TransformDict(self.matrices())


IDENT_TF = None


def obj3d(
    pos,
    *,
    yaw=0.0,
    size=(2.0, 2.0, 2.0),
    label="car",
    score=0.9,
    uuid=None,
    points=10,
    time=1000,
    frame="base_link",
    ego: EgoPose | None = None,
    attributes=(),
    quat_sign=1,
    velocity=(0.0, 0.0, 0.0),
    vid=None,
    label_obj=None,
    size_as_given=False,
):
    """3-D object given by its EGO-relative pose; rendered in `frame` (map rendering needs ego)."""
    pos = (float(pos[0]), float(pos[1]), float(pos[2]) if len(pos) > 2 else 0.0)
    if frame == "map":
        assert ego is not None
        pos, yaw = ego.to_map(pos, yaw)
    o = DynamicObject(
        unix_time=time,
        frame_id=FrameID.MAP if frame == "map" else FrameID.BASE_LINK,
        position=pos,
        orientation=yaw_quat(yaw, quat_sign),
        shape=Shape(ShapeType.BOUNDING_BOX, tuple(size) if size_as_given else tuple(float(s) for s in size)),
        velocity=velocity,
        semantic_score=float(score),
        semantic_label=label_obj if label_obj is not None else aw_label(label, attributes),
        pointcloud_num=points,
        uuid=uuid,
    )
    o._verif_id = vid
    return o


CAMS = {0: FrameID.CAM_FRONT, 1: FrameID.CAM_BACK, 2: FrameID.CAM_TRAFFIC_LIGHT, 3: FrameID.CAM_FRONT_LEFT}


def obj2d(offset, *, size=(2, 2), label="car", score=0.9, uuid=None, time=1000, cam=0, vid=None, tl=False, roi=True):
    o = DynamicObject2D(
        unix_time=time,
        frame_id=CAMS[cam] if not isinstance(cam, FrameID) else cam,
        semantic_score=float(score),
        semantic_label=tl_label(label) if tl else aw_label(label),
        roi=(int(offset[0]), int(offset[1]), int(size[0]), int(size[1])) if roi else None,
        uuid=uuid,
    )
    o._verif_id = vid
    return o


def frame_gt(objects, *, time=1000, name="0", ego: EgoPose | None = None, raw=None):
    tf = (ego or EgoPose()).matrices()
    return FrameGroundTruth(unix_time=time, frame_name=name, objects=list(objects), transforms=tf, raw_data=raw)


def vid(o):
    return getattr(o, "_verif_id", None)


def derive(o, salt=0):
    """the same object as `o`, not built afresh but DERIVED by the library: interpolated half way between two copies of it displaced by -d / +d that
    have already been looked at through every geometric getter (whatever those cache travels along with the deepcopy inside
    interpolate_dynamic_object).  Lattice positions are reproduced exactly."""
    from copy import deepcopy

    from perception_eval.common.geometry import interpolate_dynamic_object

    k = (getattr(o, "_verif_id", 0) or 0) + 3 * salt      # every object comes from its own pair of displaced copies
    d = np.array([4.0 + 1.5 * k, -2.0 - 0.5 * k, 0.0])
    lo, hi = deepcopy(o), deepcopy(o)
    lo.state.position = tuple(float(v) for v in (np.array(o.state.position) - d))
    hi.state.position = tuple(float(v) for v in (np.array(o.state.position) + d))
    lo.unix_time, hi.unix_time = o.unix_time - 500, o.unix_time + 500
    for x in (lo, hi):
        for getter in ("get_footprint", "get_corners", "get_area_bev", "get_volume"):
            try:
                getattr(x, getter)()
            except Exception:
                pass
        for getter in ("get_distance_bev", "get_heading_bev", "get_distance"):
            try:
                getattr(x, getter)()
            except Exception:
                pass
    out = interpolate_dynamic_object(lo, hi, lo.unix_time, hi.unix_time, o.unix_time)
    out._verif_id = getattr(o, "_verif_id", None)
    return out
